------------------------------- MODULE AclSem -------------------------------
(***************************************************************************)
(* Packet semantics of access lists over a small address / service         *)
(* universe, shared by the ASA and IOS device specifications.              *)
(*                                                                         *)
(* Address terms  : [k |-> "any"|"host"|"net"|"grp", v |-> name]           *)
(* ACE            : [act, src, dst, svc, log]  (act "remark" never matches)*)
(* Groups         : name -> [typ, m]  with m a set of address names        *)
(***************************************************************************)
EXTENDS Integers, Sequences, FiniteSets

Hosts    == {"h1", "h2", "h3", "h4", "hx"}
NetHosts == [n12 |-> {"h1", "h2"}, n34 |-> {"h3", "h4"}, n14 |-> {"h1", "h2", "h3", "h4"}]
Nets     == DOMAIN NetHosts
AtomSvc  == {"tcp80", "tcp22", "udp53", "icmp"}

AddrHosts(a) == IF a \in Hosts THEN {a} ELSE IF a \in Nets THEN NetHosts[a] ELSE {}

TermHosts(t, grp) ==
  CASE t.k = "any"  -> Hosts
    [] t.k = "host" -> {t.v}
    [] t.k = "net"  -> AddrHosts(t.v)
    [] t.k = "grp"  -> IF t.v \in DOMAIN grp THEN UNION {AddrHosts(a) : a \in grp[t.v].m} ELSE {}
    [] OTHER        -> {}

SvcMatch(svc, p) == svc = "ip" \/ svc = p \/ (svc = "tcp" /\ p \in {"tcp80", "tcp22"})
\* the service of an ACE may be an object-group of type service (ASA): a name from this closed set;
\* its members are atomic services
SvcGroupNames == {b \o s : b \in {"sg0", "sg1"}, s \in {"", "-DRC-0", "-DRC-1", "-DRC-2", "-DRC-3"}}
SvcMatchG(svc, p, grp) ==
  IF svc \in SvcGroupNames THEN svc \in DOMAIN grp /\ \E m \in grp[svc].m : SvcMatch(m, p)
  ELSE SvcMatch(svc, p)

Packets == [s : Hosts, d : Hosts, p : AtomSvc]

Matches(ace, pkt, grp) ==
  /\ ace.act \in {"permit", "deny"}
  /\ pkt.s \in TermHosts(ace.src, grp)
  /\ pkt.d \in TermHosts(ace.dst, grp)
  /\ SvcMatchG(ace.svc, pkt.p, grp)

\* first match wins, implicit deny at the end
RECURSIVE VerdictFrom(_, _, _, _)
VerdictFrom(acl, i, pkt, grp) ==
  IF i > Len(acl) THEN "deny"
  ELSE IF Matches(acl[i], pkt, grp) THEN acl[i].act
  ELSE VerdictFrom(acl, i + 1, pkt, grp)

Verdict(acl, pkt, grp) == VerdictFrom(acl, 1, pkt, grp)

\* C14: every packet on which old and new agree keeps that verdict in cur
StepSafeAcl(old, gold, new, gnew, cur, gcur) ==
  \A pkt \in Packets :
    Verdict(old, pkt, gold) = Verdict(new, pkt, gnew)
      => Verdict(cur, pkt, gcur) = Verdict(old, pkt, gold)

\* a witness packet for reports
UnsafePkts(old, gold, new, gnew, cur, gcur) ==
  {pkt \in Packets : Verdict(old, pkt, gold) = Verdict(new, pkt, gnew)
                     /\ Verdict(cur, pkt, gcur) # Verdict(old, pkt, gold)}

\* two ACEs are the same line for a device if they differ at most in the log attribute
SameLine(a, b) == [a EXCEPT !.log = ""] = [b EXCEPT !.log = ""]

SeqRange(s) == {s[i] : i \in DOMAIN s}
DelAt(s, i) == SubSeq(s, 1, i - 1) \o SubSeq(s, i + 1, Len(s))
InsAt(s, i, x) == SubSeq(s, 1, i - 1) \o <<x>> \o SubSeq(s, i, Len(s))
=============================================================================
