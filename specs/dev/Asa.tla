--------------------------------- MODULE Asa ---------------------------------
(***************************************************************************)
(* Cisco ASA as an explicit state machine: one action per kind of command  *)
(* Netspoc-Approve can emit.  The guard of an action says "the device      *)
(* accepts this command now" (C08).  Guards never disable an action: a     *)
(* rejected command leaves the configuration unchanged and latches the     *)
(* reason in `err`.                                                        *)
(*                                                                         *)
(* acl   : name -> Seq(ACE)                                                *)
(* grp   : name -> [typ, m]           object-groups                        *)
(* bind  : set of [acl, if, dir]      access-group (if = "" for global)    *)
(* route : set of [fam, if, dst, gw]                                       *)
(* mode  : name of the object-group whose sub-mode is open, or ""          *)
(***************************************************************************)
EXTENDS AclSem, TLC

VARIABLES acl, grp, bind, route, mode, err
dvars == <<acl, grp, bind, route, mode, err>>

Latch(g) == IF err = "" THEN g ELSE err

GrpRefs(ace) == {t.v : t \in {x \in {ace.src, ace.dst} : x.k = "grp"}}
                \cup (IF ace.svc \in SvcGroupNames THEN {ace.svc} ELSE {})
AclRefsGrp(n, g) == \E i \in DOMAIN acl[n] : g \in GrpRefs(acl[n][i])
GrpReferenced(g) == \E n \in DOMAIN acl : AclRefsGrp(n, g)
AclReferenced(n) == \E b \in bind : b.acl = n

Drop(f, k) == [x \in (DOMAIN f) \ {k} |-> f[x]]
Put(f, k, v) == [x \in (DOMAIN f) \cup {k} |-> IF x = k THEN v ELSE f[x]]

-----------------------------------------------------------------------------
(* access-list N line K extended ... *)
AclInsertG(n, pos, ace) ==
  CASE n \notin DOMAIN acl                                  -> "access-list with line number does not exist"
    [] pos < 1 \/ pos > Len(acl[n]) + 1                     -> "line number does not address a position of the access-list"
    [] ~(GrpRefs(ace) \subseteq DOMAIN grp)                 -> "access-list entry references unknown object-group"
    [] \E i \in DOMAIN acl[n] : SameLine(acl[n][i], ace)    -> "access-list entry already present"
    [] OTHER -> ""
AclInsert(n, pos, ace) ==
  LET g == AclInsertG(n, pos, ace) IN
  /\ err' = Latch(g)
  /\ acl' = IF g = "" THEN [acl EXCEPT ![n] = InsAt(@, pos, ace)] ELSE acl
  /\ mode' = ""
  /\ UNCHANGED <<grp, bind, route>>

(* access-list N extended ...   (no line number: appended, creates the list) *)
AclAppendG(n, ace) ==
  CASE ~(GrpRefs(ace) \subseteq DOMAIN grp)                 -> "access-list entry references unknown object-group"
    [] n \in DOMAIN acl /\ \E i \in DOMAIN acl[n] : SameLine(acl[n][i], ace)
                                                            -> "access-list entry already present"
    [] OTHER -> ""
AclAppend(n, ace) ==
  LET g == AclAppendG(n, ace) IN
  /\ err' = Latch(g)
  /\ acl' = IF g # "" THEN acl
            ELSE IF n \in DOMAIN acl THEN [acl EXCEPT ![n] = Append(@, ace)]
            ELSE Put(acl, n, <<ace>>)
  /\ mode' = ""
  /\ UNCHANGED <<grp, bind, route>>

(* no access-list N line K extended ...                                      *)
(* Removing the last entry of a list that an access-group names is latched   *)
(* as an error AND takes effect the way the device does it: the list and the *)
(* access-group commands naming it are gone (so C07 sees the damage).        *)
RefGone == {"last entry of a referenced access-list deleted", "referenced access-list deleted"}
AclDeleteG(n, pos, ace) ==
  CASE n \notin DOMAIN acl                                  -> "access-list does not exist"
    [] pos < 1 \/ pos > Len(acl[n])                         -> "line number does not address a position of the access-list"
    [] acl[n][pos] # ace                                    -> "line number does not address the intended entry"
    [] Len(acl[n]) = 1 /\ AclReferenced(n)                  -> "last entry of a referenced access-list deleted"
    [] OTHER -> ""
AclDelete(n, pos, ace) ==
  LET g == AclDeleteG(n, pos, ace) IN
  /\ err' = Latch(g)
  /\ acl' = IF g \notin ({""} \cup RefGone) THEN acl
            ELSE IF Len(acl[n]) = 1 THEN Drop(acl, n)
            ELSE [acl EXCEPT ![n] = DelAt(@, pos)]
  /\ bind' = IF g \in RefGone THEN {b \in bind : b.acl # n} ELSE bind
  /\ mode' = ""
  /\ UNCHANGED <<grp, route>>

(* clear configure access-list N *)
AclClearG(n) ==
  CASE n \notin DOMAIN acl   -> "access-list does not exist"
    [] AclReferenced(n)      -> "referenced access-list deleted"
    [] OTHER -> ""
AclClear(n) ==
  LET g == AclClearG(n) IN
  /\ err' = Latch(g)
  /\ acl' = IF g \in ({""} \cup RefGone) THEN Drop(acl, n) ELSE acl
  /\ bind' = IF g \in RefGone THEN {b \in bind : b.acl # n} ELSE bind
  /\ mode' = ""
  /\ UNCHANGED <<grp, route>>

(* object-group network N : opens the sub-mode, creates the group if absent *)
GrpEnterG(typ, n) ==
  IF n \in DOMAIN grp /\ grp[n].typ # typ THEN "object-group exists with another type" ELSE ""
GrpEnter(typ, n) ==
  LET g == GrpEnterG(typ, n) IN
  /\ err' = Latch(g)
  /\ grp' = IF g = "" /\ n \notin DOMAIN grp THEN Put(grp, n, [typ |-> typ, m |-> {}]) ELSE grp
  /\ mode' = IF g = "" THEN n ELSE ""
  /\ UNCHANGED <<acl, bind, route>>

(* network-object ...   inside the sub-mode *)
MemberAddG(a) ==
  CASE mode = ""            -> "sub-command outside the mode of its parent"
    [] a \in grp[mode].m    -> "object already exists in object-group"
    [] OTHER -> ""
MemberAdd(a) ==
  LET g == MemberAddG(a) IN
  /\ err' = Latch(g)
  /\ grp' = IF g = "" THEN [grp EXCEPT ![mode].m = @ \cup {a}] ELSE grp
  /\ UNCHANGED <<acl, bind, route, mode>>

(* no network-object ... *)
MemberDelG(a) ==
  CASE mode = ""              -> "sub-command outside the mode of its parent"
    [] a \notin grp[mode].m   -> "object to be removed is not in object-group"
    [] OTHER -> ""
MemberDel(a) ==
  LET g == MemberDelG(a) IN
  /\ err' = Latch(g)
  /\ grp' = IF g = "" THEN [grp EXCEPT ![mode].m = @ \ {a}] ELSE grp
  /\ UNCHANGED <<acl, bind, route, mode>>

(* no object-group network N *)
GrpDeleteG(n) ==
  CASE n \notin DOMAIN grp  -> "object-group does not exist"
    [] GrpReferenced(n)     -> "referenced object-group deleted"
    [] OTHER -> ""
GrpDelete(n) ==
  LET g == GrpDeleteG(n) IN
  /\ err' = Latch(g)
  /\ grp' = IF g = "" THEN Drop(grp, n) ELSE grp
  /\ mode' = ""
  /\ UNCHANGED <<acl, bind, route>>

(* access-group N in|out interface I  /  access-group N global : replaces *)
BindG(n, if, dir) == IF n \notin DOMAIN acl THEN "access-group references unknown access-list" ELSE ""
Bind(n, if, dir) ==
  LET g == BindG(n, if, dir) IN
  /\ err' = Latch(g)
  /\ bind' = IF g = "" THEN {b \in bind : ~(b.if = if /\ b.dir = dir)} \cup {[acl |-> n, if |-> if, dir |-> dir]}
             ELSE bind
  /\ mode' = ""
  /\ UNCHANGED <<acl, grp, route>>

(* no access-group N in|out interface I *)
UnbindG(n, if, dir) ==
  IF [acl |-> n, if |-> if, dir |-> dir] \notin bind THEN "access-group to be removed does not exist" ELSE ""
Unbind(n, if, dir) ==
  LET g == UnbindG(n, if, dir) IN
  /\ err' = Latch(g)
  /\ bind' = IF g = "" THEN bind \ {[acl |-> n, if |-> if, dir |-> dir]} ELSE bind
  /\ mode' = ""
  /\ UNCHANGED <<acl, grp, route>>

(* route I D M G / ipv6 route I P G : one route per destination *)
RouteAddG(r) ==
  IF \E q \in route : q.fam = r.fam /\ q.dst = r.dst THEN "second route to identical destination" ELSE ""
RouteAdd(r) ==
  LET g == RouteAddG(r) IN
  /\ err' = Latch(g)
  /\ route' = IF g = "" THEN route \cup {r} ELSE route
  /\ mode' = ""
  /\ UNCHANGED <<acl, grp, bind>>

RouteDelG(r) == IF r \notin route THEN "route to be removed does not exist" ELSE ""
RouteDel(r) ==
  LET g == RouteDelG(r) IN
  /\ err' = Latch(g)
  /\ route' = IF g = "" THEN route \ {r} ELSE route
  /\ mode' = ""
  /\ UNCHANGED <<acl, grp, bind>>

(* exit : leaves the sub-mode *)
\* `exit` in global configuration mode LEAVES configuration mode: every later command would be refused
ExitG == IF mode = "" THEN "exit in global configuration mode (leaves configuration mode)" ELSE ""
Exit == err' = Latch(ExitG) /\ mode' = "" /\ UNCHANGED <<acl, grp, bind, route>>

(* a new session: the configuration stays, the mode is lost (C10) *)
Resume == mode' = "" /\ UNCHANGED <<acl, grp, bind, route, err>>

-----------------------------------------------------------------------------
(* Referential integrity of a configuration: what the guards are meant to   *)
(* preserve (checked as an invariant of the device alone, AsaMC.cfg).      *)
Integrity ==
  /\ \A n \in DOMAIN acl : Len(acl[n]) > 0
  /\ \A n \in DOMAIN acl : \A i \in DOMAIN acl[n] : GrpRefs(acl[n][i]) \subseteq DOMAIN grp
  /\ \A n \in DOMAIN acl : \A i, j \in DOMAIN acl[n] : i # j => ~SameLine(acl[n][i], acl[n][j])
  /\ \A b \in bind : b.acl \in DOMAIN acl
  /\ \A b, c \in bind : (b.if = c.if /\ b.dir = c.dir) => b = c
  /\ \A r, q \in route : (r.fam = q.fam /\ r.dst = q.dst) => r = q
  /\ mode # "" => mode \in DOMAIN grp
=============================================================================
