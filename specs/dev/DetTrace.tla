------------------------------ MODULE DetTrace ------------------------------
(* C16 is a 2-safety property: the trace of one input holds N runs of the   *)
(* real planner,  Init ; Run(out_1) ; ... ; Run(out_N),  where out_i is a   *)
(* digest of (exit status, stdout, stderr).  Every run must equal the first.*)
EXTENDS Integers, Sequences, TLC, Json, IOUtils

VARIABLES l, first
Trace  == ndJsonDeserialize(IOEnv.TRACE)
Ev     == Trace[l + 1]
LastEv == Trace[l]

TInit == l = 1 /\ first = "" /\ Trace[1].ev = "Init"
TNext ==
  /\ l < Len(Trace)
  /\ l' = l + 1
  /\ first' = CASE Ev.ev = "Init" -> ""
                [] Ev.ev = "Run" /\ first = "" -> Ev.out
                [] OTHER -> first
TSpec == TInit /\ [][TNext]_<<l, first>>

Chk(ok, tag, detail, kf) == ok \/ PrintT(<<"VERR", LastEv.t, l, tag, detail, kf>>)
Mon == Chk(LastEv.ev = "Run" => LastEv.out = first, "C16", "run differs from the first run on identical input", "")
Accepted == TLCGet("stats").diameter = Len(Trace)
=============================================================================
