-------------------------------- MODULE Linux --------------------------------
(* Linux device: static routes and the iptables ruleset (see Asa.tla for conventions).     *)
(* routes : set of [dst, hop]  (several routes to one destination are possible)            *)
(* tables : table -> chain -> [policy, rules]   rules: sequence of abstract rules          *)
EXTENDS Integers, Sequences, FiniteSets, TLC

VARIABLES routes, tables, err
dvars == <<routes, tables, err>>
Latch(g) == IF err = "" THEN g ELSE err

(* ip route add D via H *)
RouteAddG(r) == IF r \in routes THEN "RTNETLINK answers: File exists" ELSE ""
RouteAdd(r) == LET g == RouteAddG(r) IN
  /\ err' = Latch(g) /\ routes' = (IF g = "" THEN routes \cup {r} ELSE routes) /\ UNCHANGED tables

(* ip route del D via H *)
RouteDelG(r) == IF r \notin routes THEN "RTNETLINK answers: No such process" ELSE ""
RouteDel(r) == LET g == RouteDelG(r) IN
  /\ err' = Latch(g) /\ routes' = (IF g = "" THEN routes \ {r} ELSE routes) /\ UNCHANGED tables

(* iptables-restore < file : every table of the file is replaced, other tables stay *)
LoadRuleset(t) ==
  /\ tables' = [n \in (DOMAIN tables) \cup (DOMAIN t) |-> IF n \in DOMAIN t THEN t[n] ELSE tables[n]]
  /\ UNCHANGED <<routes, err>>

Resume == UNCHANGED dvars
=============================================================================
