--------------------------------- MODULE Ios ---------------------------------
(***************************************************************************)
(* Cisco IOS as an explicit state machine (see Asa.tla for conventions).   *)
(*                                                                         *)
(* acl   : name -> Seq([n, ace])   entries in ascending sequence number n  *)
(* intf  : name -> [vrf, in, out]  in/out = bound ACL name or ""           *)
(* route : set of [vrf, dst, gw]                                           *)
(* cmap  : "NAME SEQ" -> [name, seq, typ, peers, fin, fout]  crypto map       *)
(*         entries; typ = "ipsec-isakmp" | "gdoi"                           *)
(*         peers = set of peer addresses, fin/fout = filter ACL name or ""  *)
(* ifcm  : interface -> name of the crypto map bound to it or ""           *)
(* mode  : [k, v]  k in {"", "acl", "if", "cm"}                            *)
(***************************************************************************)
EXTENDS AclSem, TLC

VARIABLES acl, intf, route, cmap, ifcm, mode, err
dvars == <<acl, intf, route, cmap, ifcm, mode, err>>
cv == <<cmap, ifcm>>

Latch(g) == IF err = "" THEN g ELSE err
Top  == [k |-> "", v |-> ""]
Drop(f, k) == [x \in (DOMAIN f) \ {k} |-> f[x]]
Put(f, k, v) == [x \in (DOMAIN f) \cup {k} |-> IF x = k THEN v ELSE f[x]]

Aces(n) == [i \in DOMAIN acl[n] |-> acl[n][i].ace]
AclReferenced(n) == \/ \E i \in DOMAIN intf : intf[i].in = n \/ intf[i].out = n
                    \/ \E k \in DOMAIN cmap : cmap[k].fin = n \/ cmap[k].fout = n

\* position at which sequence number k is inserted
Before(s, k) == Cardinality({i \in DOMAIN s : s[i].n < k})

(* ip access-list resequence N start step *)
ResequenceG(n, start, step) == IF n \notin DOMAIN acl THEN "resequence of unknown access-list" ELSE ""
Resequence(n, start, step) ==
  LET g == ResequenceG(n, start, step) IN
  /\ err' = Latch(g)
  /\ acl' = IF g = "" THEN [acl EXCEPT ![n] = [i \in DOMAIN @ |-> [@[i] EXCEPT !.n = start + (i - 1) * step]]]
            ELSE acl
  /\ mode' = Top
  /\ UNCHANGED <<intf, route, cmap, ifcm>>

(* ip access-list extended N : opens the sub-mode; an unknown list is created empty *)
AclEnter(n) ==
  /\ acl' = IF n \in DOMAIN acl THEN acl ELSE Put(acl, n, <<>>)
  /\ mode' = [k |-> "acl", v |-> n]
  /\ UNCHANGED <<intf, route, err, cmap, ifcm>>

(* <k> permit|deny|remark ...   inside the sub-mode *)
SeqInsertG(k, ace) ==
  CASE mode.k # "acl" -> "sub-command outside the mode of its parent"
    [] \E i \in DOMAIN acl[mode.v] : acl[mode.v][i].n = k -> "sequence number already in use"
    [] ace.act # "remark" /\ \E i \in DOMAIN acl[mode.v] : SameLine(acl[mode.v][i].ace, ace)
                                                          -> "access-list entry already present"
    [] OTHER -> ""
SeqInsert(k, ace) ==
  LET g == SeqInsertG(k, ace) IN
  /\ err' = Latch(g)
  /\ acl' = IF g = "" THEN [acl EXCEPT ![mode.v] = InsAt(@, Before(@, k) + 1, [n |-> k, ace |-> ace])] ELSE acl
  /\ UNCHANGED <<intf, route, mode, cmap, ifcm>>

(* permit|deny|remark ...  without number: appended with the next free number *)
SeqAppendG(ace) ==
  CASE mode.k # "acl" -> "sub-command outside the mode of its parent"
    [] ace.act # "remark" /\ \E i \in DOMAIN acl[mode.v] : SameLine(acl[mode.v][i].ace, ace)
                                                          -> "access-list entry already present"
    [] OTHER -> ""
SeqAppend(ace) ==
  LET g == SeqAppendG(ace)
      s == acl[mode.v]
      k == IF Len(s) = 0 THEN 10 ELSE s[Len(s)].n + 10
  IN
  /\ err' = Latch(g)
  /\ acl' = IF g = "" THEN [acl EXCEPT ![mode.v] = Append(@, [n |-> k, ace |-> ace])] ELSE acl
  /\ UNCHANGED <<intf, route, mode, cmap, ifcm>>

(* no <k> *)
SeqDeleteG(k) ==
  CASE mode.k # "acl" -> "sub-command outside the mode of its parent"
    [] ~\E i \in DOMAIN acl[mode.v] : acl[mode.v][i].n = k -> "sequence number to be removed does not exist"
    [] OTHER -> ""
SeqDelete(k) ==
  LET g == SeqDeleteG(k) IN
  /\ err' = Latch(g)
  /\ acl' = IF g = "" THEN [acl EXCEPT ![mode.v] = SelectSeq(@, LAMBDA e : e.n # k)] ELSE acl
  /\ UNCHANGED <<intf, route, mode, cmap, ifcm>>

(* no permit|deny|remark ...  : removes the entry with that content *)
AceDeleteG(ace) ==
  CASE mode.k # "acl" -> "sub-command outside the mode of its parent"
    [] ~\E i \in DOMAIN acl[mode.v] : acl[mode.v][i].ace = ace -> "entry to be removed does not exist"
    [] OTHER -> ""
AceDelete(ace) ==
  LET g == AceDeleteG(ace) IN
  /\ err' = Latch(g)
  /\ acl' = IF g = "" THEN [acl EXCEPT ![mode.v] = SelectSeq(@, LAMBDA e : e.ace # ace)] ELSE acl
  /\ UNCHANGED <<intf, route, mode, cmap, ifcm>>

(* no ip access-list extended N                                               *)
(* IOS removes the list even while an interface or a crypto map entry still  *)
(* names it (the reference then dangles): the error is latched AND the list  *)
(* is gone, so that the frame check (C07) sees the damage.                   *)
AclDeleteG(n) ==
  CASE n \notin DOMAIN acl -> "access-list does not exist"
    [] AclReferenced(n)    -> "referenced access-list deleted"
    [] OTHER -> ""
AclDelete(n) ==
  LET g == AclDeleteG(n) IN
  /\ err' = Latch(g)
  /\ acl' = IF n \in DOMAIN acl THEN Drop(acl, n) ELSE acl
  /\ mode' = Top
  /\ UNCHANGED <<intf, route, cmap, ifcm>>

(* interface I *)
IntfEnterG(i) == IF i \notin DOMAIN intf THEN "unknown interface" ELSE ""
IntfEnter(i) ==
  LET g == IntfEnterG(i) IN
  /\ err' = Latch(g)
  /\ mode' = IF g = "" THEN [k |-> "if", v |-> i] ELSE Top
  /\ UNCHANGED <<acl, intf, route, cmap, ifcm>>

(* ip access-group N in|out   inside interface mode: replaces *)
IntfBindG(n, dir) ==
  CASE mode.k # "if"        -> "sub-command outside the mode of its parent"
    [] n \notin DOMAIN acl  -> "ip access-group references unknown access-list"
    [] OTHER -> ""
IntfBind(n, dir) ==
  LET g == IntfBindG(n, dir) IN
  /\ err' = Latch(g)
  /\ intf' = IF g # "" THEN intf
             ELSE IF dir = "in" THEN [intf EXCEPT ![mode.v].in = n] ELSE [intf EXCEPT ![mode.v].out = n]
  /\ UNCHANGED <<acl, route, mode, cmap, ifcm>>

(* no ip access-group N in|out *)
IntfUnbindG(n, dir) ==
  CASE mode.k # "if" -> "sub-command outside the mode of its parent"
    [] (IF dir = "in" THEN intf[mode.v].in ELSE intf[mode.v].out) # n -> "ip access-group to be removed does not exist"
    [] OTHER -> ""
IntfUnbind(n, dir) ==
  LET g == IntfUnbindG(n, dir) IN
  /\ err' = Latch(g)
  /\ intf' = IF g # "" THEN intf
             ELSE IF dir = "in" THEN [intf EXCEPT ![mode.v].in = ""] ELSE [intf EXCEPT ![mode.v].out = ""]
  /\ UNCHANGED <<acl, route, mode, cmap, ifcm>>

(* ip route [vrf V] D M G *)
RouteAdd(r) ==
  /\ route' = route \cup {r}
  /\ mode' = Top
  /\ UNCHANGED <<acl, intf, err, cmap, ifcm>>

RouteDelG(r) == IF r \notin route THEN "route to be removed does not exist" ELSE ""
RouteDel(r) ==
  LET g == RouteDelG(r) IN
  /\ err' = Latch(g)
  /\ route' = IF g = "" THEN route \ {r} ELSE route
  /\ mode' = Top
  /\ UNCHANGED <<acl, intf, cmap, ifcm>>

(* crypto map NAME SEQ ipsec-isakmp : opens the sub-mode; an unknown entry is created *)
(* incomplete (no peer, no filter)                                                   *)
CmEnter(k, name, seq, typ) ==
  /\ cmap' = IF k \in DOMAIN cmap THEN cmap
             ELSE Put(cmap, k, [name |-> name, seq |-> seq, typ |-> typ, peers |-> {}, fin |-> "", fout |-> ""])
  /\ mode' = [k |-> "cm", v |-> k]
  /\ UNCHANGED <<acl, intf, route, ifcm, err>>

(* no crypto map NAME SEQ ipsec-isakmp *)
CmDeleteG(k) == IF k \notin DOMAIN cmap THEN "crypto map entry to be removed does not exist" ELSE ""
CmDelete(k) ==
  LET g == CmDeleteG(k) IN
  /\ err' = Latch(g)
  /\ cmap' = IF g = "" THEN Drop(cmap, k) ELSE cmap
  /\ mode' = Top
  /\ UNCHANGED <<acl, intf, route, ifcm>>

(* set peer P / no set peer P   inside the entry *)
CmPeerG(p, no) ==
  CASE mode.k # "cm" -> "sub-command outside the mode of its parent"
    [] no /\ p \notin cmap[mode.v].peers -> "peer to be removed does not exist"
    [] OTHER -> ""
CmPeer(p, no) ==
  LET g == CmPeerG(p, no) IN
  /\ err' = Latch(g)
  /\ cmap' = IF g # "" THEN cmap
             ELSE IF no THEN [cmap EXCEPT ![mode.v].peers = @ \ {p}] ELSE [cmap EXCEPT ![mode.v].peers = @ \cup {p}]
  /\ UNCHANGED <<acl, intf, route, ifcm, mode>>

(* set ip access-group N in|out : replaces / no set ip access-group N in|out *)
CmFilterG(n, dir, no) ==
  CASE mode.k # "cm" -> "sub-command outside the mode of its parent"
    [] ~no /\ n \notin DOMAIN acl -> "crypto filter references unknown access-list"
    [] no /\ (IF dir = "in" THEN cmap[mode.v].fin ELSE cmap[mode.v].fout) # n -> "crypto filter to be removed does not exist"
    [] OTHER -> ""
CmFilter(n, dir, no) ==
  LET g == CmFilterG(n, dir, no)
      v == IF no THEN "" ELSE n
  IN
  /\ err' = Latch(g)
  /\ cmap' = IF g # "" THEN cmap
             ELSE IF dir = "in" THEN [cmap EXCEPT ![mode.v].fin = v] ELSE [cmap EXCEPT ![mode.v].fout = v]
  /\ UNCHANGED <<acl, intf, route, ifcm, mode>>

(* crypto map NAME  inside interface mode: replaces; the map must have an entry *)
IntfCmG(name, no) ==
  CASE mode.k # "if" -> "sub-command outside the mode of its parent"
    [] ~no /\ ~\E k \in DOMAIN cmap : cmap[k].name = name -> "interface references unknown crypto map"
    [] no /\ ifcm[mode.v] # name -> "crypto map binding to be removed does not exist"
    [] OTHER -> ""
IntfCm(name, no) ==
  LET g == IntfCmG(name, no) IN
  /\ err' = Latch(g)
  /\ ifcm' = IF g # "" THEN ifcm ELSE [ifcm EXCEPT ![mode.v] = IF no THEN "" ELSE name]
  /\ UNCHANGED <<acl, intf, route, cmap, mode>>

\* `exit` in global configuration mode LEAVES configuration mode: every later command would be refused
ExitG == IF mode = Top THEN "exit in global configuration mode (leaves configuration mode)" ELSE ""
Exit   == err' = Latch(ExitG) /\ mode' = Top /\ UNCHANGED <<acl, intf, route, cmap, ifcm>>
Resume == mode' = Top /\ UNCHANGED <<acl, intf, route, cmap, ifcm, err>>

Integrity ==
  /\ \A n \in DOMAIN acl : \A i, j \in DOMAIN acl[n] : i < j => acl[n][i].n < acl[n][j].n
  /\ \A i \in DOMAIN intf : (intf[i].in # "" => intf[i].in \in DOMAIN acl)
                         /\ (intf[i].out # "" => intf[i].out \in DOMAIN acl)
  /\ \A k \in DOMAIN cmap : (cmap[k].fin # "" => cmap[k].fin \in DOMAIN acl)
                          /\ (cmap[k].fout # "" => cmap[k].fout \in DOMAIN acl)
=============================================================================
