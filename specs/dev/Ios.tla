--------------------------------- MODULE Ios ---------------------------------
(***************************************************************************)
(* Cisco IOS as an explicit state machine (see Asa.tla for conventions).   *)
(*                                                                         *)
(* acl   : name -> Seq([n, ace])   entries in ascending sequence number n  *)
(* intf  : name -> [vrf, in, out]  in/out = bound ACL name or ""           *)
(* route : set of [vrf, dst, gw]                                           *)
(* mode  : [k, v]  k in {"", "acl", "if"}                                  *)
(***************************************************************************)
EXTENDS AclSem, TLC

VARIABLES acl, intf, route, mode, err
dvars == <<acl, intf, route, mode, err>>

Latch(g) == IF err = "" THEN g ELSE err
Top  == [k |-> "", v |-> ""]
Drop(f, k) == [x \in (DOMAIN f) \ {k} |-> f[x]]
Put(f, k, v) == [x \in (DOMAIN f) \cup {k} |-> IF x = k THEN v ELSE f[x]]

Aces(n) == [i \in DOMAIN acl[n] |-> acl[n][i].ace]
AclReferenced(n) == \E i \in DOMAIN intf : intf[i].in = n \/ intf[i].out = n

\* position at which sequence number k is inserted
Before(s, k) == Cardinality({i \in DOMAIN s : s[i].n < k})

(* ip access-list resequence N start step *)
ResequenceG(n, start, step) == IF n \notin DOMAIN acl THEN "resequence of unknown access-list" ELSE ""
Resequence(n, start, step) ==
  LET g == ResequenceG(n, start, step) IN
  /\ err' = Latch(g)
  /\ acl' = IF g = "" THEN [acl EXCEPT ![n] = [i \in DOMAIN @ |-> [@[i] EXCEPT !.n = start + (i - 1) * step]]]
            ELSE acl
  /\ mode' = Top
  /\ UNCHANGED <<intf, route>>

(* ip access-list extended N : opens the sub-mode; an unknown list is created empty *)
AclEnter(n) ==
  /\ acl' = IF n \in DOMAIN acl THEN acl ELSE Put(acl, n, <<>>)
  /\ mode' = [k |-> "acl", v |-> n]
  /\ UNCHANGED <<intf, route, err>>

(* <k> permit|deny|remark ...   inside the sub-mode *)
SeqInsertG(k, ace) ==
  CASE mode.k # "acl" -> "sub-command outside the mode of its parent"
    [] \E i \in DOMAIN acl[mode.v] : acl[mode.v][i].n = k -> "sequence number already in use"
    [] ace.act # "remark" /\ \E i \in DOMAIN acl[mode.v] : SameLine(acl[mode.v][i].ace, ace)
                                                          -> "access-list entry already present"
    [] OTHER -> ""
SeqInsert(k, ace) ==
  LET g == SeqInsertG(k, ace) IN
  /\ err' = Latch(g)
  /\ acl' = IF g = "" THEN [acl EXCEPT ![mode.v] = InsAt(@, Before(@, k) + 1, [n |-> k, ace |-> ace])] ELSE acl
  /\ UNCHANGED <<intf, route, mode>>

(* permit|deny|remark ...  without number: appended with the next free number *)
SeqAppendG(ace) ==
  CASE mode.k # "acl" -> "sub-command outside the mode of its parent"
    [] ace.act # "remark" /\ \E i \in DOMAIN acl[mode.v] : SameLine(acl[mode.v][i].ace, ace)
                                                          -> "access-list entry already present"
    [] OTHER -> ""
SeqAppend(ace) ==
  LET g == SeqAppendG(ace)
      s == acl[mode.v]
      k == IF Len(s) = 0 THEN 10 ELSE s[Len(s)].n + 10
  IN
  /\ err' = Latch(g)
  /\ acl' = IF g = "" THEN [acl EXCEPT ![mode.v] = Append(@, [n |-> k, ace |-> ace])] ELSE acl
  /\ UNCHANGED <<intf, route, mode>>

(* no <k> *)
SeqDeleteG(k) ==
  CASE mode.k # "acl" -> "sub-command outside the mode of its parent"
    [] ~\E i \in DOMAIN acl[mode.v] : acl[mode.v][i].n = k -> "sequence number to be removed does not exist"
    [] OTHER -> ""
SeqDelete(k) ==
  LET g == SeqDeleteG(k) IN
  /\ err' = Latch(g)
  /\ acl' = IF g = "" THEN [acl EXCEPT ![mode.v] = SelectSeq(@, LAMBDA e : e.n # k)] ELSE acl
  /\ UNCHANGED <<intf, route, mode>>

(* no permit|deny|remark ...  : removes the entry with that content *)
AceDeleteG(ace) ==
  CASE mode.k # "acl" -> "sub-command outside the mode of its parent"
    [] ~\E i \in DOMAIN acl[mode.v] : acl[mode.v][i].ace = ace -> "entry to be removed does not exist"
    [] OTHER -> ""
AceDelete(ace) ==
  LET g == AceDeleteG(ace) IN
  /\ err' = Latch(g)
  /\ acl' = IF g = "" THEN [acl EXCEPT ![mode.v] = SelectSeq(@, LAMBDA e : e.ace # ace)] ELSE acl
  /\ UNCHANGED <<intf, route, mode>>

(* no ip access-list extended N *)
AclDeleteG(n) ==
  CASE n \notin DOMAIN acl -> "access-list does not exist"
    [] AclReferenced(n)    -> "referenced access-list deleted"
    [] OTHER -> ""
AclDelete(n) ==
  LET g == AclDeleteG(n) IN
  /\ err' = Latch(g)
  /\ acl' = IF g = "" THEN Drop(acl, n) ELSE acl
  /\ mode' = Top
  /\ UNCHANGED <<intf, route>>

(* interface I *)
IntfEnterG(i) == IF i \notin DOMAIN intf THEN "unknown interface" ELSE ""
IntfEnter(i) ==
  LET g == IntfEnterG(i) IN
  /\ err' = Latch(g)
  /\ mode' = IF g = "" THEN [k |-> "if", v |-> i] ELSE Top
  /\ UNCHANGED <<acl, intf, route>>

(* ip access-group N in|out   inside interface mode: replaces *)
IntfBindG(n, dir) ==
  CASE mode.k # "if"        -> "sub-command outside the mode of its parent"
    [] n \notin DOMAIN acl  -> "ip access-group references unknown access-list"
    [] OTHER -> ""
IntfBind(n, dir) ==
  LET g == IntfBindG(n, dir) IN
  /\ err' = Latch(g)
  /\ intf' = IF g # "" THEN intf
             ELSE IF dir = "in" THEN [intf EXCEPT ![mode.v].in = n] ELSE [intf EXCEPT ![mode.v].out = n]
  /\ UNCHANGED <<acl, route, mode>>

(* no ip access-group N in|out *)
IntfUnbindG(n, dir) ==
  CASE mode.k # "if" -> "sub-command outside the mode of its parent"
    [] (IF dir = "in" THEN intf[mode.v].in ELSE intf[mode.v].out) # n -> "ip access-group to be removed does not exist"
    [] OTHER -> ""
IntfUnbind(n, dir) ==
  LET g == IntfUnbindG(n, dir) IN
  /\ err' = Latch(g)
  /\ intf' = IF g # "" THEN intf
             ELSE IF dir = "in" THEN [intf EXCEPT ![mode.v].in = ""] ELSE [intf EXCEPT ![mode.v].out = ""]
  /\ UNCHANGED <<acl, route, mode>>

(* ip route [vrf V] D M G *)
RouteAdd(r) ==
  /\ route' = route \cup {r}
  /\ mode' = Top
  /\ UNCHANGED <<acl, intf, err>>

RouteDelG(r) == IF r \notin route THEN "route to be removed does not exist" ELSE ""
RouteDel(r) ==
  LET g == RouteDelG(r) IN
  /\ err' = Latch(g)
  /\ route' = IF g = "" THEN route \ {r} ELSE route
  /\ mode' = Top
  /\ UNCHANGED <<acl, intf>>

Exit   == mode' = Top /\ UNCHANGED <<acl, intf, route, err>>
Resume == mode' = Top /\ UNCHANGED <<acl, intf, route, err>>

Integrity ==
  /\ \A n \in DOMAIN acl : \A i, j \in DOMAIN acl[n] : i < j => acl[n][i].n < acl[n][j].n
  /\ \A i \in DOMAIN intf : (intf[i].in # "" => intf[i].in \in DOMAIN acl)
                         /\ (intf[i].out # "" => intf[i].out \in DOMAIN acl)
=============================================================================
