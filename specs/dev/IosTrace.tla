------------------------------ MODULE IosTrace ------------------------------
(* Trace validation for the IOS family; structure as AsaTrace.tla.         *)
EXTENDS Ios, Merge, Json, IOUtils, SequencesExt

VARIABLES l, i0, errl, nchg, moved
tvars == <<l, i0, errl, nchg, moved>>

Trace  == ndJsonDeserialize(IOEnv.TRACE)
Ev     == Trace[l + 1]
LastEv == Trace[l]
I0     == Trace[i0]
D0     == I0.dev
T      == I0.tgt

Numbered(s) == [i \in DOMAIN s |-> [n |-> 10 * i, ace |-> s[i]]]
AclOf(j)   == [n \in DOMAIN j.acls |-> Numbered(j.acls[n])]
IntfOf(j)  == [i \in DOMAIN j.intfs |-> [vrf |-> j.intfs[i].vrf, in |-> j.intfs[i].in, out |-> j.intfs[i].out]]
RouteOf(j) == ToSet(j.routes)
\* crypto maps are optional in the JSON of a configuration (families without VPN omit them)
CmapOf(j)  == IF "cmaps" \in DOMAIN j
              THEN [k \in DOMAIN j.cmaps |-> [name |-> j.cmaps[k].name, seq |-> j.cmaps[k].seq, typ |-> j.cmaps[k].typ, peers |-> ToSet(j.cmaps[k].peers),
                                               fin |-> j.cmaps[k].fin, fout |-> j.cmaps[k].fout]]
              ELSE <<>>
IfcmOf(j)  == [i \in DOMAIN j.intfs |-> IF "ifcm" \in DOMAIN j /\ i \in DOMAIN j.ifcm THEN j.ifcm[i] ELSE ""]

TInit ==
  /\ l = 1 /\ i0 = 1 /\ errl = 0 /\ nchg = 0 /\ moved = {}
  /\ Trace[1].ev = "Init"
  /\ acl = AclOf(Trace[1].dev) /\ intf = IntfOf(Trace[1].dev) /\ route = RouteOf(Trace[1].dev)
  /\ cmap = CmapOf(Trace[1].dev) /\ ifcm = IfcmOf(Trace[1].dev)
  /\ mode = Top /\ err = ""

IsChange(e) == e.ev \notin {"Init", "Resume", "Done"}

Dispatch(e) ==
  CASE e.ev = "Resequence" -> Resequence(e.n, e.start, e.step)
    [] e.ev = "AclEnter"   -> AclEnter(e.n)
    [] e.ev = "SeqInsert"  -> SeqInsert(e.k, e.ace)
    [] e.ev = "SeqAppend"  -> SeqAppend(e.ace)
    [] e.ev = "SeqDelete"  -> SeqDelete(e.k)
    [] e.ev = "AceDelete"  -> AceDelete(e.ace)
    [] e.ev = "AclDelete"  -> AclDelete(e.n)
    [] e.ev = "IntfEnter"  -> IntfEnter(e.i)
    [] e.ev = "IntfBind"   -> IntfBind(e.n, e.dir)
    [] e.ev = "IntfUnbind" -> IntfUnbind(e.n, e.dir)
    [] e.ev = "RouteAdd"   -> RouteAdd(e.r)
    [] e.ev = "RouteDel"   -> RouteDel(e.r)
    [] e.ev = "CmEnter"    -> CmEnter(e.k, e.name, e.seq, e.typ)
    [] e.ev = "CmDelete"   -> CmDelete(e.k)
    [] e.ev = "CmPeer"     -> CmPeer(e.p, e.no)
    [] e.ev = "CmFilter"   -> CmFilter(e.n, e.dir, e.no)
    [] e.ev = "IntfCm"     -> IntfCm(e.name, e.no)
    [] e.ev = "Exit"       -> Exit
    [] e.ev = "Resume"     -> Resume
    [] e.ev = "Done"       -> UNCHANGED dvars

IsMove(e) == e.ev = "SeqInsert" /\ e.half = 2 /\ LastEv.ev = "SeqDelete" /\ LastEv.half = 1

TNext ==
  /\ l < Len(Trace)
  /\ l' = l + 1
  /\ IF Ev.ev = "Init"
     THEN /\ acl' = AclOf(Ev.dev) /\ intf' = IntfOf(Ev.dev) /\ route' = RouteOf(Ev.dev)
          /\ cmap' = CmapOf(Ev.dev) /\ ifcm' = IfcmOf(Ev.dev)
          /\ mode' = Top /\ err' = ""
          /\ i0' = l + 1 /\ errl' = 0 /\ nchg' = 0 /\ moved' = {}
     ELSE /\ Dispatch(Ev)
          /\ i0' = i0
          /\ errl' = IF err = "" /\ err' # "" THEN l + 1 ELSE errl
          /\ nchg' = IF IsChange(Ev) THEN nchg + 1 ELSE nchg
          /\ moved' = IF IsMove(Ev) THEN moved \cup {[Ev.ace EXCEPT !.log = ""]} ELSE moved

TSpec == TInit /\ [][TNext]_<<dvars, tvars>>

-----------------------------------------------------------------------------
(* Equivalence (C02): same-action runs compare as sets, remarks do not filter *)

\* the log attribute does not filter: compared modulo log (C02 speaks about filtering)
NoLog(s) == [i \in DOMAIN s |-> [s[i] EXCEPT !.log = ""]]
NoRemark(s) == NoLog(SelectSeq(s, LAMBDA a : a.act # "remark"))

RECURSIVE RunsFrom(_, _, _)
RunsFrom(s, i, acc) ==
  IF i > Len(s) THEN acc
  ELSE IF acc # <<>> /\ acc[Len(acc)].act = s[i].act
       THEN RunsFrom(s, i + 1, [acc EXCEPT ![Len(acc)].set = @ \cup {s[i]}])
       ELSE RunsFrom(s, i + 1, Append(acc, [act |-> s[i].act, set |-> {s[i]}]))
Canon(s) == RunsFrom(NoRemark(s), 1, <<>>)

TIntf == IntfOf(T)    TRoute == RouteOf(T)    DIntf == IntfOf(D0)   DRoute == RouteOf(D0)
DAces(n) == D0.acls[n]
TAces(n) == T.acls[n]

\* VRFs Netspoc talks about (alignVRFs); routes are compared for VRFs the target has routes in
TVrfsAll  == {TIntf[i].vrf : i \in DOMAIN TIntf} \cup {r.vrf : r \in TRoute}
TVrfs     == {r.vrf : r \in TRoute}
KnownIntfs == DOMAIN TIntf

Bound(f, i, dir) == IF dir = "in" THEN f[i].in ELSE f[i].out

DirEquiv(i, dir) ==
  LET t == Bound(TIntf, i, dir)  c == Bound(intf, i, dir) IN
  IF t = "" THEN c = ""
  ELSE c # "" /\ c \in DOMAIN acl /\ Canon(Aces(c)) = Canon(TAces(t))

\* crypto maps: the entries of the map bound to the interface, matched by peer; sequence numbers and
\* names are free; a filter ACL is compared by what it filters
TCmap == CmapOf(T)    TIfcm == IfcmOf(T)    DCmap == CmapOf(D0)   DIfcm == IfcmOf(D0)
FilterNow(n) == IF n = "" THEN <<>> ELSE IF n \in DOMAIN acl THEN <<Canon(Aces(n))>> ELSE << <<[act |-> "?", set |-> {}]>> >>
FilterTgt(n) == IF n = "" THEN <<>> ELSE <<Canon(TAces(n))>>
EntriesNow(name) == {[peers |-> cmap[k].peers, fin |-> FilterNow(cmap[k].fin), fout |-> FilterNow(cmap[k].fout)] :
                       k \in {x \in DOMAIN cmap : cmap[x].name = name}}
EntriesTgt(name) == {[peers |-> TCmap[k].peers, fin |-> FilterTgt(TCmap[k].fin), fout |-> FilterTgt(TCmap[k].fout)] :
                       k \in {x \in DOMAIN TCmap : TCmap[x].name = name}}
\* `crypto map ... gdoi` is not supported by Netspoc: such a map and its bindings are outside the comparison
GdoiNames0 == {DCmap[k].name : k \in {x \in DOMAIN DCmap : DCmap[x].typ = "gdoi"}}
CryptoEquiv(i) ==
  IF i \in DOMAIN DIfcm /\ DIfcm[i] \in GdoiNames0 /\ TIfcm[i] = "" THEN ifcm[i] = DIfcm[i]
  ELSE IF TIfcm[i] = "" THEN ifcm[i] = ""
  ELSE ifcm[i] # "" /\ EntriesNow(ifcm[i]) = EntriesTgt(TIfcm[i])

Equivalent ==
  /\ \A i \in KnownIntfs : i \in DOMAIN intf /\ DirEquiv(i, "in") /\ DirEquiv(i, "out") /\ CryptoEquiv(i)
  /\ \A v \in TVrfs : {r \in route : r.vrf = v} = {r \in TRoute : r.vrf = v}

-----------------------------------------------------------------------------
(* Frame (C07) *)
BaseNames == {"E0_in", "E1_in", "E0_out", "a1", "a2", "foreign", "spare", "E3_in", "VPN",
              "cf1in", "cf1out", "cf2in", "cf2out", "cf3in", "cf3out"}
GeneratedNames == {b \o "-DRC-" \o i : b \in BaseNames, i \in {"0", "1", "2", "3"}}
IsGenerated(n) == n \in GeneratedNames

ManagedIntfs0 == {i \in DOMAIN DIntf : i \in KnownIntfs /\ (TVrfsAll = {} \/ DIntf[i].vrf \in TVrfsAll)}
UnmIntfs0     == (DOMAIN DIntf) \ ManagedIntfs0
AclsOfIntfs(S) == {Bound(DIntf, i, d) : i \in S, d \in {"in", "out"}} \ {""}
\* crypto map entries outside Netspoc's scope: their map is not bound to a managed interface and is
\* bound to an unmanaged one or hand-named
ManagedCmNames0 == ({DIfcm[i] : i \in ManagedIntfs0} \ {""}) \ {DCmap[k].name : k \in {x \in DOMAIN DCmap : DCmap[x].typ = "gdoi"}}
UnmCm0 == {k \in DOMAIN DCmap : /\ DCmap[k].name \notin ManagedCmNames0
                                /\ (DCmap[k].name \in {DIfcm[i] : i \in UnmIntfs0} \/ ~IsGenerated(DCmap[k].name) \/ DCmap[k].typ = "gdoi")}
\* the binding of a gdoi map to a managed interface must stay as well
GdoiBindChanged == \E i \in DOMAIN DIfcm : DIfcm[i] \in {DCmap[k].name : k \in {x \in DOMAIN DCmap : DCmap[x].typ = "gdoi"}}
                                           /\ IfcmOf(T)[i] = "" /\ (i \notin DOMAIN ifcm \/ ifcm[i] # DIfcm[i])
FiltersOf(S) == UNION {{DCmap[k].fin, DCmap[k].fout} : k \in S} \ {""}
ManagedAcls0 == AclsOfIntfs(ManagedIntfs0) \cup FiltersOf({k \in DOMAIN DCmap : DCmap[k].name \in ManagedCmNames0})
\* ACLs outside Netspoc's scope: bound to unmanaged interfaces, or hand-named and not bound to a managed one
UnmAcls0 == (AclsOfIntfs(UnmIntfs0) \cup FiltersOf(UnmCm0) \cup {n \in DOMAIN D0.acls : ~IsGenerated(n) /\ n \notin ManagedAcls0})
            \cap DOMAIN D0.acls

FrameViol ==
  IF \E n \in UnmAcls0 : n \notin DOMAIN acl \/ Aces(n) # DAces(n) THEN "access-list outside Netspoc's scope changed"
  ELSE IF \E i \in UnmIntfs0 : i \notin DOMAIN intf \/ intf[i] # DIntf[i] \/ ifcm[i] # DIfcm[i] THEN "unmanaged interface changed"
  ELSE IF \E k \in UnmCm0 : k \notin DOMAIN cmap \/ cmap[k] # DCmap[k] THEN "crypto map outside Netspoc's scope changed"
  ELSE IF GdoiBindChanged THEN "binding of a gdoi crypto map changed"
  ELSE IF \E r \in DRoute : r.vrf \notin TVrfs /\ r \notin route THEN "route of unspecified VRF removed"
  ELSE IF \E r \in route : r.vrf \notin TVrfs /\ r \notin DRoute THEN "route of unspecified VRF added"
  ELSE ""

\* Known finding: an ACL bound to a managed and to an unmanaged interface is edited in place
KF_SharedAclEdit ==
  /\ FrameViol = "access-list outside Netspoc's scope changed"
  /\ \A n \in UnmAcls0 : (n \notin DOMAIN acl \/ Aces(n) # DAces(n))
        => (n \in DOMAIN acl /\ n \in ManagedAcls0)

-----------------------------------------------------------------------------
(* StepSafe (C14) *)
SafeSlots == {s \in ManagedIntfs0 \X {"in", "out"} : Bound(DIntf, s[1], s[2]) # "" /\ Bound(TIntf, s[1], s[2]) # ""}
OldOf(s) == DAces(Bound(DIntf, s[1], s[2]))
NewOf(s) == TAces(Bound(TIntf, s[1], s[2]))
NoGrp == [x \in {} |-> {}]

Unsafe(s) ==
  LET c == Bound(intf, s[1], s[2]) IN
  IF c = "" \/ c \notin DOMAIN acl THEN Packets
  ELSE UnsafePkts(OldOf(s), NoGrp, NewOf(s), NoGrp, Aces(c), NoGrp)

H2(s, p) ==
  LET c == Bound(intf, s[1], s[2]) IN
  /\ c # "" /\ c \in DOMAIN acl
  /\ \E x \in moved : /\ Matches(x, p, NoGrp)
       /\ \E j \in DOMAIN acl[c] : LET y == acl[c][j].ace IN
            /\ y.act \in {"permit", "deny"} /\ y.act # x.act /\ Matches(y, p, NoGrp)
            /\ ~\E k \in DOMAIN NewOf(s) : SameLine(NewOf(s)[k], y)

\* known finding, shape H3 (see AsaTrace): x was moved across a line y of the opposite action that the
\* target keeps and that has not been moved yet; x and y stand in the other order than in the target
PosIn(q, a) == IF \E i \in DOMAIN q : SameLine(q[i], a) THEN CHOOSE i \in DOMAIN q : SameLine(q[i], a) ELSE 0
H3(s, p) ==
  LET c == Bound(intf, s[1], s[2]) IN
  /\ c # "" /\ c \in DOMAIN acl
  /\ \E x \in moved : /\ Matches(x, p, NoGrp) /\ PosIn(Aces(c), x) > 0 /\ PosIn(NewOf(s), x) > 0
       /\ \E j \in DOMAIN acl[c] : LET y == acl[c][j].ace IN
            /\ y.act \in {"permit", "deny"} /\ y.act # x.act /\ Matches(y, p, NoGrp)
            /\ PosIn(NewOf(s), y) > 0 /\ [y EXCEPT !.log = ""] \notin moved
            /\ (j < PosIn(Aces(c), x)) # (PosIn(NewOf(s), y) < PosIn(NewOf(s), x))

\* known finding 10b: old and new version of a bound ACL share no line: rewritten in place
K2(s) == ~\E a \in DOMAIN OldOf(s), b \in DOMAIN NewOf(s) : OldOf(s)[a] = NewOf(s)[b]

\* known finding: the device binds one ACL to several interfaces / directions and the
\* tool edits it in place for one of them while the others still use it
SharedOld(s) ==
  \E s2 \in ((DOMAIN DIntf) \X {"in", "out"}) \ {s} : Bound(DIntf, s2[1], s2[2]) = Bound(DIntf, s[1], s[2])

AclUnsafe == \E s \in SafeSlots : Unsafe(s) # {}
AclUnsafeKF ==
  IF \A s \in SafeSlots : Unsafe(s) # {} => K2(s) THEN "K2"
  ELSE IF \A s \in SafeSlots : \A p \in Unsafe(s) : H2(s, p) \/ K2(s) THEN "H2"
  ELSE IF \A s \in SafeSlots : \A p \in Unsafe(s) : H2(s, p) \/ K2(s) \/ H3(s, p) THEN "H3"
  ELSE IF \A s \in SafeSlots : \A p \in Unsafe(s) : H2(s, p) \/ K2(s) \/ H3(s, p) \/ SharedOld(s) THEN "IosSharedAcl"
  ELSE ""

\* known finding on a secondary attribute: remarks next to block borders
HasRemark(q) == \E i \in DOMAIN q : q[i].act = "remark"
LogVariant(o, n) == \E i \in DOMAIN o, j \in DOMAIN n : SameLine(o[i], n[j]) /\ o[i] # n[j]
KF_Cosmetic ==
  IF \E s \in SafeSlots : HasRemark(OldOf(s)) \/ HasRemark(NewOf(s)) THEN "IosRemark" ELSE ""

\* known finding (C10): the cut fell between `crypto map NAME SEQ ipsec-isakmp` and `set peer`: the device
\* holds an incomplete entry and the resumed run aborts with "Missing peer or dynamic in crypto map"
KF_Resume ==
  IF /\ l > 1 /\ Trace[l - 1].ev = "Resume" /\ LastEv.n2 = -1
     /\ \E k \in DOMAIN cmap : cmap[k].peers = {}
  THEN "IosCryptoIncompleteEntry" ELSE KF_Cosmetic

RouteUnsafe ==
  \E v \in TVrfs : \E r \in DRoute : /\ r.vrf = v /\ (\E q \in TRoute : q.vrf = v /\ q.dst = r.dst)
                                     /\ ~\E c \in route : c.vrf = v /\ c.dst = r.dst

-----------------------------------------------------------------------------
\* C18: the ACL the script built on the empty device is the effective (merged) target
IsMerge == "parts" \in DOMAIN T
MergedAcl == LET c == intf["E0"].in IN IF c = "" \/ c \notin DOMAIN acl THEN <<>> ELSE Aces(c)
\* on a device that already holds an ACL the script is incremental and IOS leaves the order inside a run of
\* same-action lines free (C02): the result is compared block-canonically with the one admissible merge
\* (without an IPv6 part it is unique: raw, Netspoc up to its last permit, APPEND, rest of Netspoc)
LastPermitIdx(q) == LET ps == {i \in DOMAIN q : q[i].act = "permit"} IN IF ps = {} THEN 0 ELSE CHOOSE m \in ps : \A x \in ps : x <= m
ExpectedMerge == LET v == T.parts.v4  lp == LastPermitIdx(T.parts.v4) IN
                 T.parts.pre \o SubSeq(v, 1, lp) \o T.parts.app \o SubSeq(v, lp + 1, Len(v))
MergeOK == IF DOMAIN D0.acls = {} THEN Admissible(MergedAcl, T.parts.v4, T.parts.v6, T.parts.pre, T.parts.app)
           ELSE Canon(MergedAcl) = Canon(ExpectedMerge)

Post(j) ==
  /\ DOMAIN acl = DOMAIN j.acls /\ \A n \in DOMAIN acl : Aces(n) = j.acls[n]
  /\ intf = IntfOf(j) /\ route = RouteOf(j)
  /\ cmap = CmapOf(j) /\ ifcm = IfcmOf(j)

Chk(ok, tag, detail, kf) == ok \/ PrintT(<<"VERR", LastEv.t, l, tag, detail, kf>>)

CompleteEntry == IsChange(LastEv) /\ LastEv.half \in {0, 2}

Mon ==
  /\ Chk(~(err # "" /\ errl = l), "C08", err, "")
  /\ Chk(LastEv.ev = "Init" \/ FrameViol = "", "C07", FrameViol, IF KF_SharedAclEdit THEN "SharedAclEdit" ELSE "")
  /\ Chk(~(CompleteEntry /\ I0.safe /\ AclUnsafe), "C14", "access-list", AclUnsafeKF)
  /\ Chk(~(CompleteEntry /\ I0.safe /\ RouteUnsafe), "C14", "route", "")
  /\ Chk(LastEv.ev \in {"Resume", "Done"} => Post(LastEv.post), "HARNESS", "post state of replica differs", "")
  /\ Chk(LastEv.ev = "Done" /\ IsMerge => MergeOK, "C18",
         IF IsMerge THEN Why(MergedAcl, T.parts.v4, T.parts.v6, T.parts.pre, T.parts.app) ELSE "", "")
  /\ Chk(LastEv.ev = "Done" /\ ~IsMerge => Equivalent, "EQUIV", IF nchg = 0 THEN "unchanged" ELSE "final", KF_Resume)
  /\ Chk(LastEv.ev = "Done" => LastEv.n2 = 0, "FIXPOINT", "second compare reports changes", KF_Resume)

Accepted == TLCGet("stats").diameter = Len(Trace)
=============================================================================
