------------------------------- MODULE IosGen -------------------------------
(* Input universes for the IOS family (see AsaGen.tla).                     *)
EXTENDS AclSem, TLC, Json, SequencesExt, Randomization

CONSTANTS Fam, MaxLen
VARIABLES dev, tgt

T(k, v) == [k |-> k, v |-> v]
AceL(act, svc, s, d, log) == [act |-> act, svc |-> svc, src |-> s, dst |-> d, log |-> log]
Ace(act, svc, s, d) == AceL(act, svc, s, d, "")
Remark(txt) == [act |-> "remark", svc |-> txt, src |-> T("any", ""), dst |-> T("any", ""), log |-> ""]

\* permit / deny lines whose match sets overlap in all ways: block structure matters
Pool == {
  Ace("permit", "ip",    T("host", "h1"), T("host", "h3")),
  Ace("deny",   "ip",    T("host", "h1"), T("any", "")),
  Ace("permit", "ip",    T("net", "n12"), T("host", "h3")),
  Ace("permit", "tcp80", T("any", ""),    T("host", "h3")),
  Ace("deny",   "ip",    T("any", ""),    T("host", "h3")),
  Ace("permit", "ip",    T("any", ""),    T("any", "")) }

\* log variants and remarks
Pool8 == {
  Ace("permit", "ip", T("host", "h1"), T("host", "h3")),
  AceL("permit", "ip", T("host", "h1"), T("host", "h3"), "log"),
  AceL("deny", "ip", T("any", ""), T("host", "h3"), "log-input"),
  Ace("deny", "ip", T("any", ""), T("host", "h3")),
  Ace("permit", "udp53", T("net", "n34"), T("any", "")),
  Remark("R1"), Remark("R2") }

NoDup(s) == \A i, j \in DOMAIN s : i # j =>
              (s[i] # s[j] /\ (s[i].act # "remark" => ~SameLine(s[i], s[j])))
InjSeqs(S, n) == UNION {{s \in [1..k -> S] : NoDup(s)} : k \in 1..n}

I(vrf, in, out) == [vrf |-> vrf, in |-> in, out |-> out]
Cfg(acls, intfs, routes, xe) == [acls |-> acls, intfs |-> intfs, routes |-> routes, xe |-> xe]
NoFn == [x \in {} |-> {}]

F1 ==
  \E a, b \in InjSeqs(Pool, MaxLen) :
    /\ dev = Cfg([E0_in |-> a], [E0 |-> I("", "E0_in", "")], {}, FALSE)
    /\ tgt = Cfg([E0_in |-> b], [E0 |-> I("", "E0_in", "")], {}, FALSE)

(* F8: IOS-XE sequence numbers, log variants, remarks, generated device names *)
F8 ==
  \E a, b \in InjSeqs(Pool8, MaxLen), xe \in BOOLEAN, dn \in {"E0_in", "E0_in-DRC-0"} :
    /\ (\E i \in DOMAIN a : a[i].act # "remark") /\ (\E i \in DOMAIN b : b[i].act # "remark")
    /\ dev = Cfg([n \in {dn} |-> a], [E0 |-> I("", dn, "")], {}, xe)
    /\ tgt = Cfg([E0_in |-> b], [E0 |-> I("", "E0_in", "")], {}, FALSE)

(* F3: interfaces sharing or not sharing ACLs, in and out, two VRFs *)
Short == {<<Ace("permit", "ip", T("host", "h1"), T("host", "h3"))>>,
          <<Ace("permit", "ip", T("host", "h1"), T("host", "h3")), Ace("deny", "ip", T("any", ""), T("any", ""))>>,
          <<Ace("deny", "ip", T("host", "h1"), T("any", "")), Ace("permit", "tcp80", T("any", ""), T("host", "h3"))>>}
Slots == {<<"E0", "in">>, <<"E1", "in">>, <<"E0", "out">>}
Plans(names) == {p \in [Slots -> names \cup {""}] : p[<<"E0", "in">>] # ""}
PlanIntfs(p, v1) == [i \in {"E0", "E1"} |->
                       I(IF i = "E1" THEN v1 ELSE "", p[<<i, "in">>], IF i = "E0" THEN p[<<"E0", "out">>] ELSE "")]
PlanAcls(p, c) == [n \in {p[s] : s \in {x \in Slots : p[x] # ""}} |-> c[n]]
F3 ==
  \E pd \in Plans({"a1", "a2-DRC-0"}), pt \in Plans({"a1", "a2"}), v1 \in {"", "v1"},
     cd \in [{"a1", "a2-DRC-0"} -> Short], ct \in [{"a1", "a2"} -> Short] :
    /\ dev = Cfg(PlanAcls(pd, cd), PlanIntfs(pd, v1), {}, FALSE)
    /\ tgt = Cfg(PlanAcls(pt, ct), PlanIntfs(pt, v1), {}, FALSE)

(* F4: routes in two VRFs; a VRF may be absent from the target *)
Dsts == {"any", "n14", "n12"}
\* gBd / gBi: the same next hop with an administrative distance / an outgoing interface (longer command forms)
RouteSets(vrfs) == {rs \in SUBSET [vrf : vrfs, dst : Dsts, gw : {"gA", "gB"}] :
                       \A r, q \in rs : (r.vrf = q.vrf /\ r.dst = q.dst) => r = q}
Keep == <<Ace("permit", "ip", T("any", ""), T("any", ""))>>
F4 ==
  \E ra0 \in RouteSets({"", "v1"}), rb \in RouteSets({"", "v1"}), tv1 \in BOOLEAN, long \in {"", "gBd", "gBi"} :
    LET ra == IF long = "" THEN ra0 ELSE {IF r.gw = "gB" THEN [r EXCEPT !.gw = long] ELSE r : r \in ra0} IN
    /\ Cardinality(ra) <= MaxLen /\ Cardinality(rb) <= MaxLen
    /\ (long # "" => \E r \in ra0 : r.gw = "gB")
    /\ (~tv1 => \A r \in rb : r.vrf = "")
    /\ dev = Cfg([E0_in |-> Keep, E1_in |-> Keep], [E0 |-> I("", "E0_in", ""), E1 |-> I("v1", "E1_in", "")], ra, FALSE)
    /\ tgt = Cfg(IF tv1 THEN [E0_in |-> Keep, E1_in |-> Keep] ELSE [E0_in |-> Keep],
                 IF tv1 THEN [E0 |-> I("", "E0_in", ""), E1 |-> I("v1", "E1_in", "")] ELSE [E0 |-> I("", "E0_in", "")],
                 rb, FALSE)

(* F4M: several static routes to one destination (next hops gA, gB): the device holds some of them *)
MRoutes == [vrf : {""}, dst : {"n14", "n12"}, gw : {"gA", "gB"}]
F4M ==
  \E ra0 \in SUBSET MRoutes, rb \in SUBSET MRoutes, long \in {"", "gBd"} :
    LET ra == IF long = "" THEN ra0 ELSE {IF r.gw = "gB" THEN [r EXCEPT !.gw = long] ELSE r : r \in ra0} IN
    /\ (long # "" => \E r \in ra0 : r.gw = "gB")
    /\ dev = Cfg([E0_in |-> Keep], [E0 |-> I("", "E0_in", "")], ra, FALSE)
    /\ tgt = Cfg([E0_in |-> Keep], [E0 |-> I("", "E0_in", "")], rb, FALSE)

(* F4N: destinations with one network address and different prefix lengths (n14 = 10.1.0.0/16, n13 = 10.1.0.0/24) *)
NRouteSets == {rs \in SUBSET [vrf : {""}, dst : {"n14", "n13"}, gw : {"gA", "gB"}] : \A r, q \in rs : r.dst = q.dst => r = q}
F4N ==
  \E ra, rb \in NRouteSets :
    /\ dev = Cfg([E0_in |-> Keep], [E0 |-> I("", "E0_in", "")], ra, FALSE)
    /\ tgt = Cfg([E0_in |-> Keep], [E0 |-> I("", "E0_in", "")], rb, FALSE)

(* F7: content outside Netspoc's scope: unknown interface, unmanaged VRF, spare ACL *)
F7 ==
  \E a, b \in InjSeqs(Pool, MaxLen),
     ovl \in SUBSET {"unknown-intf-own-acl", "unknown-intf-shared-acl", "spare-acl", "vrf9", "vrf9-shared-acl", "vrf9-route", "vrf9-two"} :
    \* vrf9-two: a second interface (E1) in the unmanaged VRF with a generated ACL name of its own
    /\ ("vrf9-two" \in ovl => {"vrf9", "vrf9-shared-acl"} \cap ovl # {})
    /\ ~({"unknown-intf-own-acl", "unknown-intf-shared-acl"} \subseteq ovl)
    /\ ~({"vrf9", "vrf9-shared-acl"} \subseteq ovl)
    /\ LET ov == <<Ace("permit", "ip", T("host", "h4"), T("any", ""))>>
           \* with two interfaces in the unmanaged VRF both of their ACLs carry generated names
           E3Acl == IF "vrf9-two" \in ovl THEN "E3_in-DRC-0" ELSE "E3_in"
           acls == [n \in {"E0_in"}
                      \cup (IF "unknown-intf-own-acl" \in ovl THEN {"foreign"} ELSE {})
                      \cup (IF "spare-acl" \in ovl THEN {"spare"} ELSE {})
                      \cup (IF "vrf9" \in ovl THEN {E3Acl} ELSE {})
                      \cup (IF "vrf9-two" \in ovl THEN {"E1_in-DRC-0"} ELSE {})
                   |-> IF n = "E0_in" THEN a ELSE ov]
           intfs == [i \in {"E0"}
                      \cup (IF {"unknown-intf-own-acl", "unknown-intf-shared-acl"} \cap ovl # {} THEN {"E2"} ELSE {})
                      \cup (IF {"vrf9", "vrf9-shared-acl"} \cap ovl # {} THEN {"E3"} ELSE {})
                      \cup (IF "vrf9-two" \in ovl THEN {"E1"} ELSE {})
                    |-> CASE i = "E0" -> I("", "E0_in", "")
                          [] i = "E1" -> I("v9", "E1_in-DRC-0", "")
                          [] i = "E2" -> I("", IF "unknown-intf-own-acl" \in ovl THEN "foreign" ELSE "E0_in", "")
                          [] i = "E3" -> I("v9", IF "vrf9" \in ovl THEN E3Acl ELSE "E0_in", "")]
           routes == IF "vrf9-route" \in ovl THEN {[vrf |-> "v9", dst |-> "n12", gw |-> "gA"]} ELSE {}
       IN /\ dev = Cfg(acls, intfs, routes, FALSE)
          /\ tgt = Cfg([E0_in |-> b], [E0 |-> I("", "E0_in", "")], {}, FALSE)

(* M1: merge of the Netspoc part and the raw part (C18) on an empty device *)
SeqsUpTo(S, n) == {<<>>} \cup InjSeqs(S, n)
V4Pool == {Ace("permit", "ip", T("host", "h1"), T("host", "h3")), Ace("permit", "tcp80", T("any", ""), T("host", "h3")),
           Ace("deny", "ip", T("any", ""), T("any", ""))}
PrePool == {Ace("permit", "udp53", T("net", "n34"), T("any", "")), Ace("deny", "ip", T("host", "h4"), T("any", ""))}
AppPool == {AceL("deny", "ip", T("any", ""), T("host", "h3"), "log"), Ace("permit", "icmp", T("any", ""), T("any", ""))}
M1 ==
  \E v4 \in InjSeqs(V4Pool, MaxLen), pre \in SeqsUpTo(PrePool, 2), app \in SeqsUpTo(AppPool, 2) :
    /\ dev = Cfg(NoFn, [E0 |-> I("", "", "")], {}, FALSE)
    /\ tgt = [acls |-> [E0_in |-> v4], intfs |-> [E0 |-> I("", "E0_in", "")], routes |-> {}, xe |-> FALSE,
              parts |-> [v4 |-> v4, v6 |-> <<>>, pre |-> pre, app |-> app]]

(* M2L: the same merge on a device that already holds an ACL over the lines of all parts *)
M2L ==
  \E a \in RandomSubset(60, InjSeqs(V4Pool \cup PrePool \cup AppPool, 3)), dn \in {"E0_in", "E0_in-DRC-0"},
     v4 \in InjSeqs(V4Pool, MaxLen), pre \in SeqsUpTo(PrePool, 2), app \in SeqsUpTo(AppPool, 2) :
    /\ dev = Cfg([n \in {dn} |-> a], [E0 |-> I("", dn, "")], {}, FALSE)
    /\ tgt = [acls |-> [E0_in |-> v4], intfs |-> [E0 |-> I("", "E0_in", "")], routes |-> {}, xe |-> FALSE,
              parts |-> [v4 |-> v4, v6 |-> <<>>, pre |-> pre, app |-> app]]

(* F1L: longer ACLs (up to MaxLen lines over 8 overlapping ACEs): a seeded random sample of the  *)
(* pairs, drawn by TLC (Randomization!RandomSubset, seed = tlc -seed)                             *)
PoolL == Pool \cup {Ace("permit", "ip", T("host", "h2"), T("host", "h4")), Ace("permit", "udp53", T("net", "n34"), T("any", ""))}
F1L ==
  \E a \in RandomSubset(170, InjSeqs(PoolL, MaxLen)), b \in RandomSubset(170, InjSeqs(PoolL, MaxLen)) :
    /\ dev = Cfg([E0_in |-> a], [E0 |-> I("", "E0_in", "")], {}, FALSE)
    /\ tgt = Cfg([E0_in |-> b], [E0 |-> I("", "E0_in", "")], {}, FALSE)

(* V1L: crypto maps with in/out filter ACLs.  Entries are matched by peer, sequence numbers and   *)
(* names differ between device and target, filter ACLs are added, removed, moved between the      *)
(* directions, replaced and edited in place; a hand-made crypto map at an unknown interface.      *)
FA  == <<Ace("permit", "ip", T("host", "h1"), T("host", "h3")), Ace("deny", "ip", T("any", ""), T("any", ""))>>
FA2 == <<Ace("permit", "ip", T("host", "h1"), T("host", "h3")), Ace("permit", "tcp80", T("any", ""), T("host", "h3")),
         Ace("deny", "ip", T("any", ""), T("any", ""))>>
FB  == <<Ace("permit", "udp53", T("net", "n34"), T("any", "")), Ace("deny", "ip", T("any", ""), T("any", ""))>>
FContent(c) == CASE c = "A" -> FA [] c = "A2" -> FA2 [] c = "B" -> FB
EntryOpts == [peer : {"p1", "p2", "p3"}, fin : {"", "A", "A2", "B"}, fout : {"", "A"}]
EntrySets(seqs) == UNION {{e \in [S -> EntryOpts] : \A x, y \in S : x # y => e[x].peer # e[y].peer} :
                          S \in {S \in SUBSET seqs : Cardinality(S) <= 2}}
SeqStr(n) == CASE n = 1 -> "1" [] n = 2 -> "2" [] n = 3 -> "3"
FName(n, d, sfx) == "cf" \o SeqStr(n) \o d \o sfx
CmKey(name, n) == name \o " " \o SeqStr(n)
VCfg(es, name, sfx, foreign) ==
  LET S == DOMAIN es
      facls == [n \in {FName(x, "in", sfx) : x \in {y \in S : es[y].fin # ""}} \cup
                      {FName(x, "out", sfx) : x \in {y \in S : es[y].fout # ""}} |->
                  LET x == CHOOSE y \in S : n \in {FName(y, "in", sfx), FName(y, "out", sfx)} IN
                  IF n = FName(x, "in", sfx) THEN FContent(es[x].fin) ELSE FContent(es[x].fout)]
      base  == [n \in {"E0_in"} |-> Keep]
      fgn   == IF foreign THEN [n \in {"foreign"} |-> FB] ELSE NoFn
      acls  == [n \in DOMAIN facls \cup DOMAIN base \cup DOMAIN fgn |->
                  IF n \in DOMAIN facls THEN facls[n] ELSE IF n \in DOMAIN base THEN base[n] ELSE fgn[n]]
      cm    == [k \in {CmKey(name, x) : x \in S} |->
                  LET x == CHOOSE y \in S : k = CmKey(name, y) IN
                  [name |-> name, seq |-> x, typ |-> "ipsec-isakmp", peers |-> {es[x].peer},
                   fin |-> IF es[x].fin = "" THEN "" ELSE FName(x, "in", sfx),
                   fout |-> IF es[x].fout = "" THEN "" ELSE FName(x, "out", sfx)]]
      fcm   == IF foreign THEN [k \in {"OTHER 1"} |-> [name |-> "OTHER", seq |-> 1, typ |-> "ipsec-isakmp", peers |-> {"p3"}, fin |-> "foreign", fout |-> ""]]
               ELSE NoFn
      cmaps == [k \in DOMAIN cm \cup DOMAIN fcm |-> IF k \in DOMAIN cm THEN cm[k] ELSE fcm[k]]
      intfs == IF foreign THEN [i \in {"E0", "E2"} |-> I("", IF i = "E0" THEN "E0_in" ELSE "", "")]
               ELSE [E0 |-> I("", "E0_in", "")]
      ifcm  == [i \in DOMAIN intfs |-> IF i = "E0" THEN (IF S = {} THEN "" ELSE name) ELSE "OTHER"]
  IN [acls |-> acls, intfs |-> intfs, routes |-> {}, xe |-> FALSE, cmaps |-> cmaps, ifcm |-> ifcm]
V1L ==
  \E ed \in RandomSubset(70, EntrySets({1, 2, 3})), et \in RandomSubset(60, EntrySets({1, 2})),
     nm \in {"VPN", "VPN-DRC-0"}, sfx \in {"", "-DRC-0"}, foreign \in BOOLEAN :
    /\ (DOMAIN ed = {} => nm = "VPN" /\ sfx = "")
    /\ DOMAIN et \in {{}, {1}, {1, 2}}
    /\ dev = VCfg(ed, nm, sfx, foreign)
    /\ tgt = VCfg(et, "VPN", "", FALSE)

(* V2: a `crypto map ... gdoi` (not supported by Netspoc) bound to managed interfaces must stay, *)
(* while the ACLs of these interfaces are changed                                                *)
V2 ==
  \E a, b \in InjSeqs(Pool, 2), two \in BOOLEAN, vpn \in BOOLEAN :
    LET is == IF two THEN {"E0", "E1"} ELSE {"E0"}
        gd == [k \in {"GD 10"} |-> [name |-> "GD", seq |-> 10, typ |-> "gdoi", peers |-> {}, fin |-> "", fout |-> ""]]
        \* optionally the target wants an ordinary crypto map at E1 (where the device has the gdoi map or nothing)
        tv == IF vpn /\ two THEN [k \in {"VPN 1"} |-> [name |-> "VPN", seq |-> 1, typ |-> "ipsec-isakmp", peers |-> {"p1"}, fin |-> "", fout |-> ""]] ELSE NoFn
    IN /\ (vpn => two)
       /\ dev = [acls |-> [E0_in |-> a], intfs |-> [i \in is |-> I("", IF i = "E0" THEN "E0_in" ELSE "", "")], routes |-> {}, xe |-> FALSE,
                 cmaps |-> gd, ifcm |-> [i \in is |-> IF i = "E0" \/ ~vpn THEN "GD" ELSE ""]]
       /\ tgt = [acls |-> [E0_in |-> b], intfs |-> [i \in is |-> I("", IF i = "E0" THEN "E0_in" ELSE "", "")], routes |-> {}, xe |-> FALSE,
                 cmaps |-> tv, ifcm |-> [i \in is |-> IF i = "E1" /\ vpn THEN "VPN" ELSE ""]]

(* S1: spellings.  One line (plus a common tail) per side over services that the device prints by name  *)
(* and Netspoc by number (protocols, ICMP types, port ranges, ntp); neighbouring services differ in one *)
(* number only                                                                                          *)
SvcS == {"esp", "ah", "gre", "icmp8", "icmp0", "icmp3-1", "tcp2021", "tcp2022", "tcpgt", "tcplt", "udp123", "udp124", "tcp80", "udp53",
         "tcpest", "tcp80est", "tcp"}
PoolS1 == {Ace("permit", v, T("host", "h1"), T("any", "")) : v \in SvcS}
S1 ==
  \E a, b \in {<<>>} \cup {<<x>> : x \in PoolS1}, tail \in {<<>>, <<Ace("deny", "ip", T("any", ""), T("any", ""))>>} :
    /\ a \o tail # <<>> /\ b \o tail # <<>>
    /\ dev = Cfg([E0_in |-> a \o tail], [E0 |-> I("", "E0_in", "")], {}, FALSE)
    /\ tgt = Cfg([E0_in |-> b \o tail], [E0 |-> I("", "E0_in", "")], {}, FALSE)

Init == CASE Fam = "S1" -> S1 [] Fam = "M2L" -> M2L [] Fam = "V2" -> V2 [] Fam = "V1L" -> V1L [] Fam = "F1L" -> F1L [] Fam = "M1" -> M1 [] Fam = "F1" -> F1 [] Fam = "F3" -> F3 [] Fam = "F4" -> F4 [] Fam = "F4M" -> F4M [] Fam = "F4N" -> F4N [] Fam = "F7" -> F7 [] Fam = "F8" -> F8
Next == UNCHANGED <<dev, tgt>>
Out == PrintT(<<"VOUT", ToJson([fam |-> Fam, dev |-> dev, tgt |-> tgt, tie |-> FALSE])>>)
=============================================================================
