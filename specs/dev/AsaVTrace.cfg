SPECIFICATION TSpec
INVARIANTS Mon
POSTCONDITION Accepted
CHECK_DEADLOCK FALSE
