----------------------------- MODULE LinuxTrace -----------------------------
(* Trace validation for the Linux family (C05, C10, C14 routes, C18 chains). *)
EXTENDS Linux, Merge, Json, IOUtils, SequencesExt

VARIABLES l, i0, errl, nchg
tvars == <<l, i0, errl, nchg>>
Trace  == ndJsonDeserialize(IOEnv.TRACE)
Ev     == Trace[l + 1]
LastEv == Trace[l]
I0     == Trace[i0]
D0     == I0.dev
T      == I0.tgt

TablesOf(j) == [t \in DOMAIN j.tables |-> [c \in DOMAIN j.tables[t] |-> j.tables[t][c]]]
RoutesOf(j) == ToSet(j.routes)

TInit == /\ l = 1 /\ i0 = 1 /\ errl = 0 /\ nchg = 0 /\ Trace[1].ev = "Init"
         /\ routes = RoutesOf(Trace[1].dev) /\ tables = TablesOf(Trace[1].dev) /\ err = ""

IsChange(e) == e.ev \notin {"Init", "Resume", "Done"}
Dispatch(e) ==
  CASE e.ev = "RouteAdd" -> RouteAdd(e.r)
    [] e.ev = "RouteDel" -> RouteDel(e.r)
    [] e.ev = "LoadRuleset" -> LoadRuleset(TablesOf(e))
    [] e.ev = "Resume" -> Resume
    [] e.ev = "Done" -> UNCHANGED dvars

TNext ==
  /\ l < Len(Trace)
  /\ l' = l + 1
  /\ IF Ev.ev = "Init"
     THEN /\ routes' = RoutesOf(Ev.dev) /\ tables' = TablesOf(Ev.dev) /\ err' = ""
          /\ i0' = l + 1 /\ errl' = 0 /\ nchg' = 0
     ELSE /\ Dispatch(Ev)
          /\ i0' = i0
          /\ errl' = IF err = "" /\ err' # "" THEN l + 1 ELSE errl
          /\ nchg' = IF IsChange(Ev) THEN nchg + 1 ELSE nchg
TSpec == TInit /\ [][TNext]_<<dvars, tvars>>

TRoutes == RoutesOf(T)   DRoutes == RoutesOf(D0)
\* an empty route section in the target means: routing is not managed
RoutesManaged == TRoutes # {}
Equivalent ==
  /\ (RoutesManaged => routes = TRoutes)
  /\ tables = TablesOf(T)

\* C14: a destination routed before and after stays routed after every complete entry
RouteUnsafe ==
  RoutesManaged /\ \E r \in DRoutes : (\E q \in TRoutes : q.dst = r.dst) /\ ~\E c \in routes : c.dst = r.dst

\* C18: chain INPUT of table filter as built from v4 + raw
IsMerge == "parts" \in DOMAIN T
MergedChain == IF "filter" \in DOMAIN tables /\ "INPUT" \in DOMAIN tables["filter"] THEN tables["filter"]["INPUT"].rules ELSE <<>>
\* a chain / table that only the raw file defines is taken over as it is, nothing else appears
RawExtraOK ==
  /\ "filter" \in DOMAIN tables
  /\ DOMAIN tables["filter"] = (IF T.parts.xchain THEN {"INPUT", "c9"} ELSE {"INPUT"})
  /\ (T.parts.xchain => tables["filter"]["c9"].rules = <<[id |-> "tcp8080", act |-> "ACCEPT"]>>)
  /\ DOMAIN tables = (IF T.parts.xtable # "none" THEN {"filter", "mangle"} ELSE {"filter"})
  \* raw rules of the second table are not behind [APPEND]: they precede the Netspoc rules of that chain
  /\ (T.parts.xtable # "none" => DOMAIN tables["mangle"] = {"PREROUTING"}
        /\ tables["mangle"]["PREROUTING"].rules = (IF T.parts.xtable = "both"
                                                    THEN <<[id |-> "markhex", act |-> "MARK"], [id |-> "mark", act |-> "MARK"]>>
                                                    ELSE <<[id |-> "markhex", act |-> "MARK"]>>))
MergeOK == Admissible(MergedChain, T.parts.v4, T.parts.v6, T.parts.pre, T.parts.app) /\ RawExtraOK

Post(j) == routes = RoutesOf(j) /\ tables = TablesOf(j)
Chk(ok, tag, detail, kf) == ok \/ PrintT(<<"VERR", LastEv.t, l, tag, detail, kf>>)
CompleteEntry == IsChange(LastEv) /\ LastEv.half \in {0, 2}

\* known finding: a table that only the device has is never flushed by the emitted restore file
KF_ExtraTable == \E t \in DOMAIN TablesOf(D0) : t \notin DOMAIN TablesOf(T)

Mon ==
  /\ Chk(~(err # "" /\ errl = l), "C08", err, "")
  /\ Chk(~(CompleteEntry /\ I0.safe /\ RouteUnsafe), "C14", "route", "")
  /\ Chk(LastEv.ev \in {"Resume", "Done"} => Post(LastEv.post), "HARNESS", "post state of replica differs", "")
  /\ Chk(LastEv.ev = "Done" /\ IsMerge => MergeOK, "C18",
         IF IsMerge THEN (IF RawExtraOK THEN Why(MergedChain, T.parts.v4, T.parts.v6, T.parts.pre, T.parts.app)
                          ELSE "a chain or table of the raw file is lost, changed or an unknown one appears") ELSE "", "")
  /\ Chk(LastEv.ev = "Done" /\ ~IsMerge => Equivalent, "EQUIV", IF nchg = 0 THEN "unchanged" ELSE "final",
         IF KF_ExtraTable THEN "LinuxExtraTable" ELSE "")
  /\ Chk(LastEv.ev = "Done" => LastEv.n2 = 0, "FIXPOINT", "second compare reports changes",
         IF KF_ExtraTable THEN "LinuxExtraTable" ELSE "")
  \* the planner reports a difference of the rulesets iff they differ
  /\ Chk(LastEv.ev = "Done" /\ ~IsMerge /\ "iptdiff" \in DOMAIN I0 => I0.iptdiff = (TablesOf(D0) # TablesOf(T)), "EQUIV",
         "`iptables differs` reported for equal rulesets or not reported for different ones", "")
Accepted == TLCGet("stats").diameter = Len(Trace)
=============================================================================
