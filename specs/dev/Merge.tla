-------------------------------- MODULE Merge --------------------------------
(***************************************************************************)
(* C18: when is a sequence `res` an admissible merge of the Netspoc IPv4    *)
(* part, the IPv6 part and the raw part (entries before / after [APPEND])?  *)
(* A predicate, not a function: nothing beyond the property text is         *)
(* demanded (the relative order of v4 and v6 entries is left free).         *)
(* Entries are records with an `act` field ("permit" | "deny" | ...); all   *)
(* entries of all parts are pairwise different.                             *)
(***************************************************************************)
EXTENDS Integers, Sequences, FiniteSets

Rng(s) == {s[i] : i \in DOMAIN s}
Pos(res, x) == CHOOSE i \in DOMAIN res : res[i] = x

\* s occurs in res in the same relative order
OrderKept(s, res) == \A i, j \in DOMAIN s : i < j => Pos(res, s[i]) < Pos(res, s[j])

Complete(res, parts) ==
  /\ Rng(res) = UNION {Rng(p) : p \in parts}
  /\ Len(res) = Cardinality(Rng(res))                       \* nothing twice
  /\ \A p \in parts : OrderKept(p, res)

IsPermit(x) == x.act \in {"permit", "allow", "ACCEPT"}

Admissible(res, v4, v6, rawPre, rawApp) ==
  LET netspoc == Rng(v4) \cup Rng(v6)
      lastPermit == LET ps == {i \in DOMAIN res : res[i] \in netspoc /\ IsPermit(res[i])}
                    IN IF ps = {} THEN 0 ELSE CHOOSE m \in ps : \A x \in ps : x <= m
  IN
  /\ Complete(res, {v4, v6, rawPre, rawApp})
  \* raw entries precede all Netspoc entries unless marked APPEND
  /\ \A r \in Rng(rawPre), n \in netspoc : Pos(res, r) < Pos(res, n)
  \* APPEND entries follow the last permitting Netspoc entry and precede the trailing denies
  /\ \A a \in Rng(rawApp) :
       /\ Pos(res, a) > lastPermit
       /\ \A r \in Rng(rawPre) : Pos(res, r) < Pos(res, a)
       /\ \A n \in netspoc : Pos(res, n) > lastPermit => Pos(res, a) < Pos(res, n)

\* which clause fails (for reports)
Why(res, v4, v6, rawPre, rawApp) ==
  IF ~(Rng(res) = UNION {Rng(p) : p \in {v4, v6, rawPre, rawApp}}) THEN "an entry of some part is lost or an unknown entry appears"
  ELSE IF Len(res) # Cardinality(Rng(res)) THEN "an entry appears twice"
  ELSE IF ~\A p \in {v4, v6, rawPre, rawApp} : OrderKept(p, res) THEN "relative order inside a part is not preserved"
  ELSE IF ~\A r \in Rng(rawPre), n \in Rng(v4) \cup Rng(v6) : Pos(res, r) < Pos(res, n) THEN "a raw entry does not precede all Netspoc entries"
  ELSE "an APPEND entry is not placed between the last permitting Netspoc entry and the trailing deny entries"
=============================================================================
