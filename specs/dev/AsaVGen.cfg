INIT Init
NEXT Next
CONSTANTS
  Fam = "F5"
  MaxLen = 3
INVARIANTS Out
CHECK_DEADLOCK FALSE
