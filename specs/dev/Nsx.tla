--------------------------------- MODULE Nsx ---------------------------------
(* NSX-T manager: gateway policies, groups and services with the REST calls the tool emits. *)
(* pol  : policy id -> (rule id -> rule)     rule = [seq, action, dir, src, dst, svc, opt]       *)
(* grp  : group id -> set of addresses       svc : service id -> definition                 *)
(* xid  : group id -> id of the (single) IP address expression of the group                 *)
(* src/dst are "ANY", a literal address or "g:<group id>"; svc is "ANY" or "s:<service id>" *)
EXTENDS Integers, Sequences, FiniteSets, TLC

VARIABLES pol, grp, svc, xid, err
dvars == <<pol, grp, svc, xid, err>>
Latch(g) == IF err = "" THEN g ELSE err
Drop(f, k) == [x \in (DOMAIN f) \ {k} |-> f[x]]
Put(f, k, v) == [x \in (DOMAIN f) \cup {k} |-> IF x = k THEN v ELSE f[x]]

AllRules == UNION {{pol[p][i] : i \in DOMAIN pol[p]} : p \in DOMAIN pol}
GrpRef(g) == "g:" \o g
SvcRef(s) == "s:" \o s
IsGrpRef(t) == \E g \in DOMAIN grp : t = GrpRef(g)
Dangling(r) ==
  \/ \E t \in {r.src, r.dst} : t \in {GrpRef(g) : g \in {"Netspoc-g0", "Netspoc-g1", "Netspoc-g2", "Netspoc-g0-1", "Netspoc-g1-1"}}
                               /\ ~IsGrpRef(t)
  \/ (r.svc # "ANY" /\ ~\E s \in DOMAIN svc : r.svc = SvcRef(s))
GrpUsed(g) == \E r \in AllRules : GrpRef(g) \in {r.src, r.dst}
SvcUsed(s) == \E r \in AllRules : r.svc = SvcRef(s)

PutService(s, v) == svc' = Put(svc, s, v) /\ UNCHANGED <<pol, grp, xid, err>>
PatchServiceG(s) == IF s \notin DOMAIN svc THEN "PATCH of a service that does not exist" ELSE ""
PatchService(s, v) == LET g == PatchServiceG(s) IN
  err' = Latch(g) /\ svc' = (IF g = "" THEN Put(svc, s, v) ELSE svc) /\ UNCHANGED <<pol, grp, xid>>
DeleteServiceG(s) == CASE s \notin DOMAIN svc -> "DELETE of a service that does not exist"
                       [] SvcUsed(s) -> "referenced service deleted" [] OTHER -> ""
DeleteService(s) == LET g == DeleteServiceG(s) IN
  err' = Latch(g) /\ svc' = (IF g = "" THEN Drop(svc, s) ELSE svc) /\ UNCHANGED <<pol, grp, xid>>

PutGroup(n, ms, x) == grp' = Put(grp, n, ms) /\ xid' = Put(xid, n, x) /\ UNCHANGED <<pol, svc, err>>
\* requests on the address list name the expression in their URL: it must be the group's own
NoExpr == "request addresses an IP address expression the group does not have"
GroupAddG(n, ms, x) == CASE n \notin DOMAIN grp -> "POST add to a group that does not exist"
                         [] xid[n] # x -> NoExpr [] OTHER -> ""
GroupAdd(n, ms, x) == LET g == GroupAddG(n, ms, x) IN
  err' = Latch(g) /\ grp' = (IF g = "" THEN [grp EXCEPT ![n] = @ \cup ms] ELSE grp) /\ UNCHANGED <<pol, svc, xid>>
GroupRemoveG(n, ms, x) == CASE n \notin DOMAIN grp -> "POST remove from a group that does not exist"
                            [] xid[n] # x -> NoExpr
                            [] ~(ms \subseteq grp[n]) -> "address to be removed is not in the group"
                            [] OTHER -> ""
GroupRemove(n, ms, x) == LET g == GroupRemoveG(n, ms, x) IN
  err' = Latch(g) /\ grp' = (IF g = "" THEN [grp EXCEPT ![n] = @ \ ms] ELSE grp) /\ UNCHANGED <<pol, svc, xid>>
PatchExprG(n, x) == CASE n \notin DOMAIN grp -> "PATCH of the expression of a group that does not exist"
                      [] xid[n] # x -> NoExpr [] OTHER -> ""
PatchExpr(n, ms, x) == LET g == PatchExprG(n, x) IN
  err' = Latch(g) /\ grp' = (IF g = "" THEN [grp EXCEPT ![n] = ms] ELSE grp) /\ UNCHANGED <<pol, svc, xid>>
DeleteGroupG(n) == CASE n \notin DOMAIN grp -> "DELETE of a group that does not exist"
                     [] GrpUsed(n) -> "referenced group deleted" [] OTHER -> ""
DeleteGroup(n) == LET g == DeleteGroupG(n) IN
  err' = Latch(g) /\ grp' = (IF g = "" THEN Drop(grp, n) ELSE grp) /\ xid' = (IF g = "" THEN Drop(xid, n) ELSE xid) /\ UNCHANGED <<pol, svc>>

PutPolicyG(p, rs) == IF \E i \in DOMAIN rs : Dangling(rs[i]) THEN "rule references unknown group or service" ELSE ""
PutPolicy(p, rs) == LET g == PutPolicyG(p, rs) IN
  err' = Latch(g) /\ pol' = (IF g = "" THEN Put(pol, p, rs) ELSE pol) /\ UNCHANGED <<grp, svc, xid>>
DeletePolicyG(p) == IF p \notin DOMAIN pol THEN "DELETE of a policy that does not exist" ELSE ""
DeletePolicy(p) == LET g == DeletePolicyG(p) IN
  err' = Latch(g) /\ pol' = (IF g = "" THEN Drop(pol, p) ELSE pol) /\ UNCHANGED <<grp, svc, xid>>
PutRuleG(p, i, r) == CASE p \notin DOMAIN pol -> "PUT of a rule into a policy that does not exist"
                       [] i \in DOMAIN pol[p] -> "PUT of a rule whose id already exists"
                       [] Dangling(r) -> "rule references unknown group or service" [] OTHER -> ""
PutRule(p, i, r) == LET g == PutRuleG(p, i, r) IN
  err' = Latch(g) /\ pol' = (IF g = "" THEN [pol EXCEPT ![p] = Put(@, i, r)] ELSE pol) /\ UNCHANGED <<grp, svc, xid>>
PatchRuleG(p, i, r) == CASE p \notin DOMAIN pol \/ i \notin DOMAIN pol[p] -> "PATCH of a rule that does not exist"
                         [] Dangling(r) -> "rule references unknown group or service" [] OTHER -> ""
PatchRule(p, i, r) == LET g == PatchRuleG(p, i, r) IN
  err' = Latch(g) /\ pol' = (IF g = "" THEN [pol EXCEPT ![p] = Put(@, i, r)] ELSE pol) /\ UNCHANGED <<grp, svc, xid>>
DeleteRuleG(p, i) == IF p \notin DOMAIN pol \/ i \notin DOMAIN pol[p] THEN "DELETE of a rule that does not exist" ELSE ""
DeleteRule(p, i) == LET g == DeleteRuleG(p, i) IN
  err' = Latch(g) /\ pol' = (IF g = "" THEN [pol EXCEPT ![p] = Drop(@, i)] ELSE pol) /\ UNCHANGED <<grp, svc, xid>>

Resume == UNCHANGED dvars
=============================================================================
