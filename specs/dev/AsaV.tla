--------------------------------- MODULE AsaV ---------------------------------
(***************************************************************************)
(* The ASA VPN object graph: usernames, group-policies, tunnel-groups,     *)
(* pools, certificate maps, tunnel-group-map / webvpn bindings and the     *)
(* ACLs they reference, as generic objects made of lines.                  *)
(*                                                                         *)
(* obj  : key -> [kind, name, lines]    lines : set of [m, t, r]           *)
(*        m = "" for a top-level command of the object, else the variant   *)
(*        of the sub-mode it lives in ("attributes", "general-attributes", *)
(*        a certificate-map sequence number, ...) or the sequence number  *)
(*        of the crypto map entry a top-level `crypto map NAME SEQ ...`    *)
(*        command belongs to; t = text with the                            *)
(*        referenced names replaced by $; r = sequence of referenced keys  *)
(* mode : [k, m] the sub-mode that is open, k = "" if none                 *)
(***************************************************************************)
EXTENDS Integers, Sequences, FiniteSets, TLC

VARIABLES obj, mode, err
dvars == <<obj, mode, err>>
Latch(g) == IF err = "" THEN g ELSE err
NoMode == [k |-> "", m |-> ""]
Drop(f, k) == [x \in (DOMAIN f) \ {k} |-> f[x]]
Put(f, k, v) == [x \in (DOMAIN f) \cup {k} |-> IF x = k THEN v ELSE f[x]]
Rng(s) == {s[i] : i \in DOMAIN s}
Line(m, t, r) == [m |-> m, t |-> t, r |-> r]

RefsExist(r) == \A x \in Rng(r) : x \in DOMAIN obj
Referenced(k) == \E k2 \in (DOMAIN obj) \ {k} : \E ln \in obj[k2].lines : k \in Rng(ln.r)
HasTop(k, t) == k \in DOMAIN obj /\ \E ln \in obj[k].lines : ln.m = "" /\ ln.t = t
HasTopPrefix(k, kind) == k \in DOMAIN obj /\ \E ln \in obj[k].lines : ln.m = ""

\* a top-level command that is also a valid sub-command of the open mode is taken as the
\* sub-command by the device (the `webvpn` ambiguity inside group-policy attributes)
Homonym(kind) == mode.k # "" /\ kind = "webvpn" /\ obj[mode.k].kind = "gp" /\ mode.m = "attributes"

(* a top-level command that adds one line to an object (creates the object); m = "" except   *)
(* for `crypto map NAME SEQ ...` (m = SEQ).  Settings of a crypto map entry that refer to    *)
(* another object (match address, transform-set) and the crypto map of an interface are      *)
(* single-valued: a new value replaces the old one.                                          *)
TopLineG(k, kind, t, r) ==
  CASE Homonym(kind) -> "top-level command issued inside a sub-mode that has a homonymous sub-command"
    [] ~RefsExist(r) -> "command references an object that does not exist"
    [] OTHER -> ""
SingleValued(kind, m, r) == r # <<>> /\ (m # "" \/ kind = "cmi")
TopLine(k, kind, name, m, t, r) == LET g == TopLineG(k, kind, t, r) IN
  /\ err' = Latch(g)
  /\ obj' = (IF g # "" THEN obj
             ELSE IF k \in DOMAIN obj
             THEN [obj EXCEPT ![k].lines = {ln \in @ : ~(SingleValued(kind, m, r) /\ ln.m = m /\ ln.t = t)} \cup {Line(m, t, r)}]
             ELSE Put(obj, k, [kind |-> kind, name |-> name, lines |-> {Line(m, t, r)}]))
  /\ mode' = NoMode

(* no <top-level command> *)
TopNoLineG(k, m, t, r) ==
  CASE ~(k \in DOMAIN obj /\ Line(m, t, r) \in obj[k].lines) -> "command to be removed does not exist"
    [] obj[k].lines = {Line(m, t, r)} /\ Referenced(k) -> "referenced object deleted"
    [] OTHER -> ""
TopNoLine(k, m, t, r) == LET g == TopNoLineG(k, m, t, r) IN
  /\ err' = Latch(g)
  /\ obj' = (IF g # "" THEN obj
             ELSE IF obj[k].lines = {Line(m, t, r)} THEN Drop(obj, k)
             ELSE [obj EXCEPT ![k].lines = @ \ {Line(m, t, r)}])
  /\ mode' = NoMode

(* opening a sub-mode: the parent must have been defined, except where the opener creates it *)
\* (`crypto ipsec ikev2 ipsec-proposal NAME` opens the sub-mode "." of a proposal and creates an empty one)
Creates(kind) == kind \in {"cm", "webvpn", "prop"}
SubEnterG(k, kind, m) ==
  CASE Homonym(kind) -> "top-level command issued inside a sub-mode that has a homonymous sub-command"
    [] ~Creates(kind) /\ ~HasTopPrefix(k, kind) -> "sub-mode of an object that is not defined"
    [] OTHER -> ""
SubEnter(k, kind, name, m) == LET g == SubEnterG(k, kind, m) IN
  /\ err' = Latch(g)
  /\ obj' = (IF g = "" /\ k \notin DOMAIN obj THEN Put(obj, k, [kind |-> kind, name |-> name, lines |-> {}]) ELSE obj)
  /\ mode' = (IF g = "" THEN [k |-> k, m |-> m] ELSE NoMode)

SubLineG(t, r) ==
  CASE mode.k = "" -> "sub-command outside the mode of its parent"
    [] ~RefsExist(r) -> "command references an object that does not exist"
    [] OTHER -> ""
SubLine(t, r) == LET g == SubLineG(t, r) IN
  /\ err' = Latch(g)
  \* a sub-command that refers to another object (vpn-filter value X, vpn-group-policy X,
  \* default-group-policy X, ...) is a single-valued setting: a new value replaces the old one
  \* (the expected outputs of the suite rely on it: no `no ...` is sent first)
  /\ obj' = (IF g = "" THEN [obj EXCEPT ![mode.k].lines =
                                  {ln \in @ : ~(r # <<>> /\ ln.m = mode.m /\ ln.t = t)} \cup {Line(mode.m, t, r)}]
             ELSE obj)
  /\ mode' = mode

SubNoLineG(t, r) ==
  CASE mode.k = "" -> "sub-command outside the mode of its parent"
    [] Line(mode.m, t, r) \notin obj[mode.k].lines -> "sub-command to be removed does not exist"
    [] OTHER -> ""
SubNoLine(t, r) == LET g == SubNoLineG(t, r) IN
  /\ err' = Latch(g)
  /\ obj' = (IF g = "" THEN [obj EXCEPT ![mode.k].lines = @ \ {Line(mode.m, t, r)}] ELSE obj)
  /\ mode' = mode

(* clear configure KIND NAME *)
ClearG(k) ==
  CASE k \notin DOMAIN obj -> "object to be cleared does not exist"
    [] Referenced(k) -> "referenced object deleted"
    [] OTHER -> ""
Clear(k) == LET g == ClearG(k) IN
  /\ err' = Latch(g) /\ obj' = (IF g = "" THEN Drop(obj, k) ELSE obj) /\ mode' = NoMode

\* `exit` in global configuration mode LEAVES configuration mode: every later command would be refused
ExitG == IF mode = NoMode THEN "exit in global configuration mode (leaves configuration mode)" ELSE ""
Exit   == err' = Latch(ExitG) /\ mode' = NoMode /\ UNCHANGED obj
Resume == mode' = NoMode /\ UNCHANGED <<obj, err>>
=============================================================================
