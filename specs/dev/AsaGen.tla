------------------------------- MODULE AsaGen -------------------------------
(***************************************************************************)
(* Input universes for the ASA family: every initial state is one pair     *)
(* (device configuration, Netspoc target); TLC enumerates them and prints  *)
(* each as JSON.  The explored space is therefore defined here.            *)
(***************************************************************************)
EXTENDS AclSem, TLC, Json, SequencesExt, Randomization

CONSTANTS Fam,      \* family to enumerate
          MaxLen    \* maximal ACL length

VARIABLES dev, tgt

T(k, v) == [k |-> k, v |-> v]
Ace(act, svc, s, d) == [act |-> act, svc |-> svc, src |-> s, dst |-> d, log |-> ""]

\* group-free ACEs whose match sets overlap in all ways
Pool == {
  Ace("permit", "ip",    T("host", "h1"), T("host", "h3")),
  Ace("deny",   "ip",    T("host", "h1"), T("any", "")),
  Ace("permit", "ip",    T("net", "n12"), T("host", "h3")),
  Ace("permit", "tcp80", T("any", ""),    T("host", "h3")),
  Ace("deny",   "ip",    T("any", ""),    T("host", "h3")),
  Ace("permit", "ip",    T("any", ""),    T("any", "")) }

\* injective sequences (no device accepts a duplicate line)
InjSeqs(S, n) == UNION {{s \in [1..k -> S] : \A i, j \in 1..k : i # j => s[i] # s[j]} : k \in 1..n}

Cfg(acls, groups, binds, routes, ifs) ==
  [acls |-> acls, groups |-> groups, binds |-> binds, routes |-> routes, ifs |-> ifs]

B(a, i, d) == [acl |-> a, if |-> i, dir |-> d]
NoFn == [x \in {} |-> {}]

-----------------------------------------------------------------------------
(* F1: line edits of one bound, group-free ACL *)
F1 ==
  \E a, b \in InjSeqs(Pool, MaxLen) :
    /\ dev = Cfg([inside_in |-> a], NoFn, {B("inside_in", "inside", "in")}, {}, {"inside"})
    /\ tgt = Cfg([inside_in |-> b], NoFn, {B("inside_in", "inside", "in")}, {}, {})

-----------------------------------------------------------------------------
(* F2: object-groups: renamed, shared, duplicated, split, left-over *)
GContents == {{"h1"}, {"h1", "h2"}, {"h1", "h2", "n34"}, {"h2", "n34"}}
Plain == Ace("permit", "ip", T("host", "h4"), T("any", ""))
GLines(g1, g2) == {
  Plain,
  Ace("permit", "ip", T("grp", g1), T("host", "h3")),
  Ace("permit", "ip", T("any", ""), T("grp", g1)),
  Ace("permit", "ip", T("grp", g2), T("host", "h3")),
  Ace("permit", "ip", T("any", ""), T("grp", g2)) }
UsedGroups(s) == UNION {{t.v : t \in {x \in {s[i].src, s[i].dst} : x.k = "grp"}} : i \in DOMAIN s}
G(m) == [typ |-> "network", m |-> m]

F2 ==
  \E a \in InjSeqs(GLines("g0-DRC-0", "g1-DRC-0"), MaxLen), b \in InjSeqs(GLines("g0", "g1"), MaxLen),
     da, db, ta, tb \in GContents :
    \* the device always holds both generated groups (unused ones are left-overs);
    \* Netspoc only emits the groups it uses
    /\ (("g0" \notin UsedGroups(b)) => ta = {"h1"}) /\ (("g1" \notin UsedGroups(b)) => tb = {"h1"})
    /\ dev = Cfg([inside_in |-> a], [n \in {"g0-DRC-0", "g1-DRC-0"} |-> IF n = "g0-DRC-0" THEN G(da) ELSE G(db)],
                 {B("inside_in", "inside", "in")}, {}, {"inside"})
    /\ tgt = Cfg([inside_in |-> b],
                 [n \in UsedGroups(b) |-> IF n = "g0" THEN G(ta) ELSE G(tb)],
                 {B("inside_in", "inside", "in")}, {}, {})

(* F2S: object-groups of type `service … tcp` as the service of an ACE, mixed with a network group: *)
(* renamed, shared, changed in place, left-over; a network and a service group with equal names     *)
(* never occur (the names are disjoint by construction)                                             *)
SContents == {{"tcp81"}, {"tcp82"}, {"tcp81", "tcp82"}}
SG(m) == [typ |-> "service-tcp", m |-> m]
SLines(s1, s2, g) == {
  Ace("permit", s1, T("host", "h1"), T("host", "h3")),
  Ace("permit", s1, T("any", ""), T("grp", g)),
  Ace("permit", s2, T("net", "n12"), T("any", "")),
  Ace("permit", "tcp80", T("host", "h4"), T("any", "")) }
UsedSvcGroups(s) == {s[i].svc : i \in DOMAIN s} \cap {"sg0", "sg1", "sg0-DRC-0", "sg1-DRC-0"}
F2S ==
  \E a \in InjSeqs(SLines("sg0-DRC-0", "sg1-DRC-0", "g0-DRC-0"), MaxLen), b \in InjSeqs(SLines("sg0", "sg1", "g0"), MaxLen),
     da, db, ta, tb \in SContents, ga, gb \in {{"h1"}, {"h1", "h2"}} :
    /\ (("sg0" \notin UsedSvcGroups(b)) => ta = {"tcp81"}) /\ (("sg1" \notin UsedSvcGroups(b)) => tb = {"tcp81"})
    /\ (("g0" \notin UsedGroups(b)) => gb = {"h1"})
    /\ dev = Cfg([inside_in |-> a],
                 [n \in {"sg0-DRC-0", "sg1-DRC-0", "g0-DRC-0"} |->
                    IF n = "sg0-DRC-0" THEN SG(da) ELSE IF n = "sg1-DRC-0" THEN SG(db) ELSE G(ga)],
                 {B("inside_in", "inside", "in")}, {}, {"inside"})
    /\ tgt = Cfg([inside_in |-> b],
                 [n \in UsedSvcGroups(b) \cup UsedGroups(b) |->
                    IF n = "sg0" THEN SG(ta) ELSE IF n = "sg1" THEN SG(tb) ELSE G(gb)],
                 {B("inside_in", "inside", "in")}, {}, {})

-----------------------------------------------------------------------------
(* F3: sharing of ACLs between interfaces, directions, global *)
Short == {<<Ace("permit", "ip", T("host", "h1"), T("host", "h3"))>>,
          <<Ace("permit", "ip", T("host", "h1"), T("host", "h3")), Ace("deny", "ip", T("any", ""), T("any", ""))>>,
          <<Ace("permit", "tcp80", T("any", ""), T("host", "h3"))>>}
\* a binding plan: which ACL name each (if,dir) slot uses, "" = slot unbound
Slots == {<<"inside", "in">>, <<"outside", "in">>, <<"inside", "out">>, <<"", "global">>}
Plans(names) == [Slots -> names \cup {""}]
PlanBinds(p) == {B(p[s], s[1], s[2]) : s \in {x \in Slots : p[x] # ""}}
PlanAcls(p, c) == [n \in {p[s] : s \in {x \in Slots : p[x] # ""}} |-> c[n]]

F3 ==
  \E pd \in Plans({"inside_in", "outside_in"}), pt \in Plans({"inside_in", "outside_in"}),
     cd \in [{"inside_in", "outside_in"} -> Short], ct \in [{"inside_in", "outside_in"} -> Short] :
    /\ pd[<<"inside", "in">>] # "" /\ pt[<<"inside", "in">>] # ""
    /\ pd[<<"outside", "in">>] # "" /\ pt[<<"outside", "in">>] # ""
    /\ dev = Cfg(PlanAcls(pd, cd), NoFn, PlanBinds(pd), {}, {"inside", "outside"})
    /\ tgt = Cfg(PlanAcls(pt, ct), NoFn, PlanBinds(pt), {}, {})

-----------------------------------------------------------------------------
(* F4: routes: nested destinations, default route switches, absent family *)
Dsts == {"any", "n14", "n12", "h1"}
RouteSets == {rs \in SUBSET [fam : {"4"}, if : {"inside"}, dst : Dsts, gw : {"gA", "gB"}] :
                 \A r, q \in rs : r.dst = q.dst => r = q}
KeepAcl == <<Ace("permit", "ip", T("any", ""), T("any", ""))>>
F4 ==
  \E ra, rb \in RouteSets :
    /\ Cardinality(ra) <= MaxLen /\ Cardinality(rb) <= MaxLen
    /\ dev = Cfg([inside_in |-> KeepAcl], NoFn, {B("inside_in", "inside", "in")}, ra, {"inside"})
    /\ tgt = Cfg([inside_in |-> KeepAcl], NoFn, {B("inside_in", "inside", "in")}, rb, {})

(* F4N: destinations with one network address and different prefix lengths (n14 = 10.1.0.0/16, n13 = 10.1.0.0/24) *)
NRouteSets == {rs \in SUBSET [fam : {"4"}, if : {"inside"}, dst : {"n14", "n13"}, gw : {"gA", "gB"}] : \A r, q \in rs : r.dst = q.dst => r = q}
F4N ==
  \E ra, rb \in NRouteSets :
    /\ dev = Cfg([inside_in |-> KeepAcl], NoFn, {B("inside_in", "inside", "in")}, ra, {"inside"})
    /\ tgt = Cfg([inside_in |-> KeepAcl], NoFn, {B("inside_in", "inside", "in")}, rb, {})
\* (no multi-route family for ASA: "ASA doesn't allow two routes to identical destination", cisco/diff.go diffRoutes)
-----------------------------------------------------------------------------
(* F7: unmanaged overlay (C07): content outside Netspoc's scope that is     *)
(* interleaved with and references / is referenced by managed content      *)
OvAcl(g) == << Ace("permit", "ip", T("grp", g), T("any", "")) >>
F7 ==
  \E a \in InjSeqs(GLines("g0-DRC-0", "gx"), MaxLen), b \in InjSeqs(GLines("g0", "g1"), MaxLen),
     da, ta, tb \in {{"h1"}, {"h1", "h2"}},
     ovl \in SUBSET {"foreign-unbound", "dmz-bound", "foreign-uses-drc", "dmz-uses-gx", "route6", "dmz-out", "dmz-shut"} :
    \* dmz-out: the unknown interface has an outgoing access-group besides the incoming one
    \* dmz-shut: the unknown interface is administratively shut down (its access-groups stay what they are)
    /\ ("dmz-out" \in ovl => "dmz-bound" \in ovl \/ "dmz-uses-gx" \in ovl)
    /\ ("dmz-shut" \in ovl => "dmz-bound" \in ovl \/ "dmz-uses-gx" \in ovl)
    /\ (("g0" \notin UsedGroups(b)) => ta = {"h1"}) /\ (("g1" \notin UsedGroups(b)) => tb = {"h1"})
    /\ LET gxm == {"h2", "n34"}
           acls == [n \in {"inside_in"}
                         \cup (IF "foreign-unbound" \in ovl \/ "foreign-uses-drc" \in ovl THEN {"foreign"} ELSE {})
                         \cup (IF "dmz-bound" \in ovl \/ "dmz-uses-gx" \in ovl THEN {"dmz_in"} ELSE {})
                         \cup (IF "dmz-out" \in ovl THEN {"dmz_out"} ELSE {})
                    |-> CASE n = "inside_in" -> a
                          [] n = "dmz_out" -> <<Ace("permit", "ip", T("host", "h4"), T("any", ""))>>
                          [] n = "foreign" -> IF "foreign-uses-drc" \in ovl THEN OvAcl("g0-DRC-0") ELSE OvAcl("gx")
                          [] n = "dmz_in"  -> IF "dmz-uses-gx" \in ovl THEN OvAcl("gx") ELSE OvAcl("g0-DRC-0")]
           binds == {B("inside_in", "inside", "in")}
                    \cup (IF "dmz_in" \in DOMAIN acls THEN {B("dmz_in", "dmz", "in")} ELSE {})
                    \cup (IF "dmz_out" \in DOMAIN acls THEN {B("dmz_out", "dmz", "out")} ELSE {})
           routes == IF "route6" \in ovl THEN {[fam |-> "6", if |-> "inside", dst |-> "n12", gw |-> "gA"]} ELSE {}
       IN /\ dev = Cfg(acls, [n \in {"g0-DRC-0", "gx"} |-> IF n = "gx" THEN G(gxm) ELSE G(da)],
                       binds, routes, {"inside", "dmz"}) @@ [shut |-> IF "dmz-shut" \in ovl THEN {"dmz"} ELSE {}]
          /\ tgt = Cfg([inside_in |-> b], [n \in UsedGroups(b) |-> IF n = "g0" THEN G(ta) ELSE G(tb)],
                       {B("inside_in", "inside", "in")}, {}, {})

-----------------------------------------------------------------------------
(* F9: ties (C16): three generated groups on the device, several of them identical, *)
(* so that more than one device group is an equally good match for a target group  *)
TieContents == {{"h1"}, {"h1", "h2"}}
F9 ==
  \E a \in InjSeqs(GLines("g0-DRC-0", "g1-DRC-0") \cup GLines("g2-DRC-0", "g2-DRC-0"), MaxLen),
     b \in InjSeqs(GLines("g0", "g1"), MaxLen),
     d0, d1, d2, ta, tb \in TieContents :
    /\ (("g0" \notin UsedGroups(b)) => ta = {"h1"}) /\ (("g1" \notin UsedGroups(b)) => tb = {"h1"})
    /\ dev = Cfg([inside_in |-> a],
                 [n \in {"g0-DRC-0", "g1-DRC-0", "g2-DRC-0"} |->
                    CASE n = "g0-DRC-0" -> G(d0) [] n = "g1-DRC-0" -> G(d1) [] OTHER -> G(d2)],
                 {B("inside_in", "inside", "in")}, {}, {"inside"})
    /\ tgt = Cfg([inside_in |-> b], [n \in UsedGroups(b) |-> IF n = "g0" THEN G(ta) ELSE G(tb)],
                 {B("inside_in", "inside", "in")}, {}, {})

(* M1: merge of IPv4, IPv6 and raw parts (C18): the device is empty, so the emitted script   *)
(* builds exactly the effective target                                                      *)
AceL(act, svc, s, d, log) == [act |-> act, svc |-> svc, src |-> s, dst |-> d, log |-> log]
SeqsUpTo(S, n) == {<<>>} \cup InjSeqs(S, n)
V4Pool == {Ace("permit", "ip", T("host", "h1"), T("host", "h3")), Ace("permit", "tcp80", T("any", ""), T("host", "h3")),
           Ace("deny", "ip", T("any", ""), T("any", ""))}
P6 == Ace("permit", "ip", T("host6", "h1"), T("any6", ""))
D6 == Ace("deny", "ip", T("any6", ""), T("any6", ""))
V6Seqs == {<<>>, <<P6>>, <<D6>>, <<P6, D6>>, <<D6, P6>>}
PrePool == {Ace("permit", "udp53", T("net", "n34"), T("any", "")), Ace("deny", "ip", T("host", "h4"), T("any", ""))}
AppPool == {AceL("deny", "ip", T("any", ""), T("host", "h3"), "log"), Ace("permit", "icmp", T("any", ""), T("any", ""))}
M1 ==
  \E v4 \in SeqsUpTo(V4Pool, MaxLen), v6 \in V6Seqs, pre \in SeqsUpTo(PrePool, 2), app \in SeqsUpTo(AppPool, 2) :
    /\ v4 # <<>> \/ v6 # <<>>
    /\ dev = Cfg(NoFn, NoFn, {}, {}, {"inside"})
    /\ tgt = [acls |-> IF v4 = <<>> THEN NoFn ELSE [inside_in |-> v4], groups |-> NoFn,
              binds |-> IF v4 = <<>> THEN {} ELSE {B("inside_in", "inside", "in")}, routes |-> {}, ifs |-> {},
              parts |-> [v4 |-> v4, v6 |-> v6, pre |-> pre, app |-> app]]

(* M2L: the same merge, but the device already holds an ACL (any sequence over the lines of all   *)
(* parts, plain or generated name): the incremental script must arrive at the effective target    *)
M2L ==
  \E a \in RandomSubset(40, InjSeqs(V4Pool \cup PrePool \cup AppPool \cup {P6}, 3)), dn \in {"inside_in", "inside_in-DRC-0"},
     v4 \in InjSeqs(V4Pool, MaxLen), v6 \in {<<>>, <<P6>>}, pre \in SeqsUpTo(PrePool, 2), app \in SeqsUpTo(AppPool, 2) :
    /\ dev = Cfg([n \in {dn} |-> a], NoFn, {B(dn, "inside", "in")}, {}, {"inside"})
    /\ tgt = [acls |-> [inside_in |-> v4], groups |-> NoFn, binds |-> {B("inside_in", "inside", "in")}, routes |-> {}, ifs |-> {},
              parts |-> [v4 |-> v4, v6 |-> v6, pre |-> pre, app |-> app]]

(* F1L: longer ACLs (up to MaxLen lines over 8 overlapping ACEs): a seeded random sample of the  *)
(* pairs, drawn by TLC (Randomization!RandomSubset, seed = tlc -seed)                             *)
PoolL == Pool \cup {Ace("permit", "ip", T("host", "h2"), T("host", "h4")), Ace("permit", "udp53", T("net", "n34"), T("any", ""))}
F1L ==
  \E a \in RandomSubset(170, InjSeqs(PoolL, MaxLen)), b \in RandomSubset(170, InjSeqs(PoolL, MaxLen)) :
    /\ dev = Cfg([inside_in |-> a], NoFn, {B("inside_in", "inside", "in")}, {}, {"inside"})
    /\ tgt = Cfg([inside_in |-> b], NoFn, {B("inside_in", "inside", "in")}, {}, {})

(* S1: spellings.  One line (plus a common tail) per side over services that the device prints by name  *)
(* and Netspoc by number (protocols, ICMP types, port ranges, ntp); neighbouring services differ in one *)
(* number only                                                                                          *)
SvcS == {"esp", "ah", "gre", "icmp8", "icmp0", "icmp3-1", "tcp2021", "tcp2022", "tcpgt", "tcplt", "udp123", "udp124", "tcp80", "udp53"}
PoolS1 == {Ace("permit", v, T("host", "h1"), T("any", "")) : v \in SvcS}
S1 ==
  \E a, b \in {<<>>} \cup {<<x>> : x \in PoolS1}, tail \in {<<>>, <<Ace("deny", "ip", T("any", ""), T("any", ""))>>} :
    /\ a \o tail # <<>> /\ b \o tail # <<>>
    /\ dev = Cfg([inside_in |-> a \o tail], NoFn, {B("inside_in", "inside", "in")}, {}, {"inside"})
    /\ tgt = Cfg([inside_in |-> b \o tail], NoFn, {B("inside_in", "inside", "in")}, {}, {})

Init == CASE Fam = "S1" -> S1 [] Fam = "F2S" -> F2S [] Fam = "M2L" -> M2L [] Fam = "F1L" -> F1L [] Fam = "M1" -> M1 [] Fam = "F9" -> F9 [] Fam = "F1" -> F1 [] Fam = "F2" -> F2 [] Fam = "F3" -> F3 [] Fam = "F4" -> F4 [] Fam = "F4N" -> F4N [] Fam = "F7" -> F7
Next == UNCHANGED <<dev, tgt>>

\* non-vacuity of C16: the input offers several equally good matches
HasTie == \E g, h \in DOMAIN dev.groups : g # h /\ dev.groups[g] = dev.groups[h]

Out == PrintT(<<"VOUT", ToJson([fam |-> Fam, dev |-> dev, tgt |-> tgt, tie |-> HasTie])>>)
=============================================================================
