INIT Init
NEXT Next
CONSTANTS
  Fam = "F1"
  MaxLen = 3
INVARIANTS Out
CHECK_DEADLOCK FALSE
