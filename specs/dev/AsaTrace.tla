------------------------------ MODULE AsaTrace ------------------------------
(***************************************************************************)
(* Trace validation for the ASA family.  One trace is                      *)
(*   Init(dev, tgt) ; event* ; [Resume(post) ; event*]* ; Done(post, n2)   *)
(* where the events are the commands the real planner emitted (parsed by   *)
(* harness cmdparse), `post` is the state the harness rendered for the     *)
(* next run of the real planner and n2 is the length of the script the     *)
(* real planner emits for the final state.                                 *)
(*                                                                         *)
(* Monitors (printed as VERR, never disabling):                            *)
(*   C08  every command is accepted by the device (guards of Asa.tla)      *)
(*   C07  Frame: unmanaged content is untouched after every event          *)
(*   C14  StepSafe after every complete entry                              *)
(*   C01/C10  Equivalent at Done, second plan empty                        *)
(***************************************************************************)
EXTENDS Asa, Merge, Json, IOUtils, SequencesExt

VARIABLES l,       \* trace lines consumed
          i0,      \* line of the Init event of the current trace
          errl,    \* line at which err was latched
          nchg,    \* number of change events of the current trace
          moved    \* ACEs moved (deleted and re-inserted in one entry) so far

tvars == <<l, i0, errl, nchg, moved>>

Trace == ndJsonDeserialize(IOEnv.TRACE)
Ev    == Trace[l + 1]
LastEv  == Trace[l]
I0    == Trace[i0]

\* ---- JSON -> state
AclOf(j)   == [n \in DOMAIN j.acls |-> j.acls[n]]
GrpOf(j)   == [n \in DOMAIN j.groups |-> [typ |-> j.groups[n].typ, m |-> ToSet(j.groups[n].m)]]
BindOf(j)  == ToSet(j.binds)
RouteOf(j) == ToSet(j.routes)

D0 == I0.dev
T  == I0.tgt

LoadFrom(e) ==
  /\ acl' = AclOf(e.dev) /\ grp' = GrpOf(e.dev) /\ bind' = BindOf(e.dev) /\ route' = RouteOf(e.dev)
  /\ mode' = "" /\ err' = ""

TInit ==
  /\ l = 1 /\ i0 = 1 /\ errl = 0 /\ nchg = 0 /\ moved = {}
  /\ Trace[1].ev = "Init"
  /\ acl = AclOf(Trace[1].dev) /\ grp = GrpOf(Trace[1].dev)
  /\ bind = BindOf(Trace[1].dev) /\ route = RouteOf(Trace[1].dev)
  /\ mode = "" /\ err = ""

IsChange(e) == e.ev \notin {"Init", "Resume", "Done", "Unmergeable"}

Dispatch(e) ==
  CASE e.ev = "AclInsert" -> AclInsert(e.n, e.pos, e.ace)
    [] e.ev = "AclAppend" -> AclAppend(e.n, e.ace)
    [] e.ev = "AclDelete" -> AclDelete(e.n, e.pos, e.ace)
    [] e.ev = "AclClear"  -> AclClear(e.n)
    [] e.ev = "GrpEnter"  -> GrpEnter(e.typ, e.n)
    [] e.ev = "MemberAdd" -> MemberAdd(e.a)
    [] e.ev = "MemberDel" -> MemberDel(e.a)
    [] e.ev = "GrpDelete" -> GrpDelete(e.n)
    [] e.ev = "Bind"      -> Bind(e.n, e.if, e.dir)
    [] e.ev = "Unbind"    -> Unbind(e.n, e.if, e.dir)
    [] e.ev = "RouteAdd"  -> RouteAdd(e.r)
    [] e.ev = "RouteDel"  -> RouteDel(e.r)
    [] e.ev = "Exit"      -> Exit
    [] e.ev = "Resume"    -> Resume
    [] e.ev = "Done"      -> UNCHANGED dvars
    [] e.ev = "Unmergeable" -> UNCHANGED dvars     \* outcome of a run on a raw file that cannot be merged

\* a move: second half of a joined entry re-inserts the line the first half deleted
IsMove(e) ==
  /\ e.ev = "AclInsert" /\ e.half = 2
  /\ LastEv.ev = "AclDelete" /\ LastEv.half = 1 /\ LastEv.n = e.n /\ SameLine(LastEv.ace, e.ace)

TNext ==
  /\ l < Len(Trace)
  /\ l' = l + 1
  /\ IF Ev.ev = "Init"
     THEN /\ LoadFrom(Ev)
          /\ i0' = l + 1 /\ errl' = 0 /\ nchg' = 0 /\ moved' = {}
     ELSE /\ Dispatch(Ev)
          /\ i0' = i0
          /\ errl' = IF err = "" /\ err' # "" THEN l + 1 ELSE errl
          /\ nchg' = IF IsChange(Ev) THEN nchg + 1 ELSE nchg
          /\ moved' = IF IsMove(Ev) THEN moved \cup {[Ev.ace EXCEPT !.log = ""]} ELSE moved

TSpec == TInit /\ [][TNext]_<<dvars, tvars>>

-----------------------------------------------------------------------------
(* Equivalence with the target (C01) *)

ExpTerm(t, g) ==
  IF t.k = "grp"
  THEN [k |-> "set", v |-> IF t.v \in DOMAIN g THEN g[t.v].m ELSE {"?missing:" \o t.v}]
  ELSE [k |-> t.k, v |-> {t.v}]
ExpSvc(v, g) == IF v \in SvcGroupNames THEN (IF v \in DOMAIN g THEN g[v].m ELSE {"?missing:" \o v}) ELSE {v}
ExpAce(a, g) == [act |-> a.act, src |-> ExpTerm(a.src, g), dst |-> ExpTerm(a.dst, g),
                 svc |-> ExpSvc(a.svc, g), log |-> a.log]
ExpAcl(s, g) == [i \in DOMAIN s |-> ExpAce(s[i], g)]

TAcl == AclOf(T)   TGrp == GrpOf(T)   TBind == BindOf(T)   TRoute == RouteOf(T)
DAcl == AclOf(D0)  DGrp == GrpOf(D0)  DBind == BindOf(D0)  DRoute == RouteOf(D0)

KnownIfs == {b.if : b \in TBind} \cup {""}
TFams    == {r.fam : r \in TRoute}

BindEquiv(b) ==
  \E d \in bind : /\ d.if = b.if /\ d.dir = b.dir /\ d.acl \in DOMAIN acl
                  /\ ExpAcl(acl[d.acl], grp) = ExpAcl(TAcl[b.acl], TGrp)

Equivalent ==
  /\ \A b \in TBind : BindEquiv(b)
  /\ \A d \in bind : d.if \in KnownIfs => \E b \in TBind : b.if = d.if /\ b.dir = d.dir
  /\ \A f \in TFams : {r \in route : r.fam = f} = {r \in TRoute : r.fam = f}

-----------------------------------------------------------------------------
(* Frame (C07): what was outside Netspoc's scope in the initial device     *)

BaseNames == {"inside_in", "outside_in", "dmz_in", "g0", "g1", "g2", "foreign", "gx", "sg0", "sg1"}
GeneratedNames == {b \o "-DRC-" \o i : b \in BaseNames, i \in {"0", "1", "2", "3"}}
IsGenerated(n) == n \in GeneratedNames

ManagedAcls0   == {b.acl : b \in {d \in DBind : d.if \in KnownIfs}}
UnmanagedAcls0 == {n \in DOMAIN DAcl : n \notin ManagedAcls0 /\ ~IsGenerated(n)}
RefsOfAcl0(n)  == UNION {GrpRefs(DAcl[n][i]) : i \in DOMAIN DAcl[n]}
\* groups an unmanaged ACL references, and hand-made groups nothing managed references
UnmanagedGrps0 ==
  (UNION {RefsOfAcl0(n) : n \in UnmanagedAcls0})
  \cup {g \in DOMAIN DGrp : ~IsGenerated(g) /\ \A n \in ManagedAcls0 : g \notin RefsOfAcl0(n)}

ChangedUnmGrps == {g \in UnmanagedGrps0 \cap DOMAIN DGrp : g \notin DOMAIN grp \/ grp[g] # DGrp[g]}

FrameViol ==
  IF \E n \in UnmanagedAcls0 : n \notin DOMAIN acl \/ acl[n] # DAcl[n] THEN "unmanaged access-list changed"
  ELSE IF ChangedUnmGrps # {} THEN "object-group outside Netspoc's scope changed"
  ELSE IF \E d \in DBind : d.if \notin KnownIfs /\ d \notin bind THEN "access-group of unknown interface removed"
  ELSE IF \E r \in DRoute : r.fam \notin TFams /\ r \notin route THEN "route of unspecified family removed"
  ELSE IF \E r \in route : r.fam \notin TFams /\ r \notin DRoute THEN "route of unspecified family added"
  ELSE ""

\* Known finding: the members of a group that a managed ACL shares with an unmanaged one
\* are edited in place (the group itself survives).
KF_SharedGroupEdit ==
  /\ FrameViol = "object-group outside Netspoc's scope changed"
  /\ \A g \in ChangedUnmGrps : g \in DOMAIN grp /\ \E n \in ManagedAcls0 : g \in RefsOfAcl0(n)

-----------------------------------------------------------------------------
(* StepSafe (C14), evaluated after complete entries of group-free traces    *)

CurAcl(if, dir) == LET s == {d \in bind : d.if = if /\ d.dir = dir}
                   IN IF s = {} THEN "" ELSE (CHOOSE d \in s : TRUE).acl

\* (if,dir) pairs bound before and after
SafePairs == {b \in TBind : \E d \in DBind : d.if = b.if /\ d.dir = b.dir}
OldAclOf(b) == DAcl[(CHOOSE d \in DBind : d.if = b.if /\ d.dir = b.dir).acl]

Unsafe(b) ==
  LET c == CurAcl(b.if, b.dir) IN
  IF c = "" \/ c \notin DOMAIN acl THEN Packets
  ELSE UnsafePkts(OldAclOf(b), DGrp, TAcl[b.acl], TGrp, acl[c], grp)

\* known finding 10: shape H2 (see DESIGN.md §7 C14)
H2(b, p) ==
  LET c == CurAcl(b.if, b.dir) IN
  /\ c # "" /\ c \in DOMAIN acl
  /\ \E x \in moved : /\ Matches(x, p, grp)
       /\ \E j \in DOMAIN acl[c] : LET y == acl[c][j] IN
            /\ y.act \in {"permit", "deny"} /\ y.act # x.act /\ Matches(y, p, grp)
            /\ ~\E k \in DOMAIN TAcl[b.acl] : SameLine(TAcl[b.acl][k], y)

\* known finding, shape H3: x was moved, a line y of the opposite action that matches a common packet and
\* that the target keeps has not been moved yet and stands on the other side of x than in the target
\* (x and y keep their relative order from old to new, but x is moved first, across y)
PosIn(q, a) == IF \E i \in DOMAIN q : SameLine(q[i], a) THEN CHOOSE i \in DOMAIN q : SameLine(q[i], a) ELSE 0
H3(b, p) ==
  LET c == CurAcl(b.if, b.dir) IN
  /\ c # "" /\ c \in DOMAIN acl
  /\ \E x \in moved : /\ Matches(x, p, grp) /\ PosIn(acl[c], x) > 0 /\ PosIn(TAcl[b.acl], x) > 0
       /\ \E j \in DOMAIN acl[c] : LET y == acl[c][j] IN
            /\ y.act \in {"permit", "deny"} /\ y.act # x.act /\ Matches(y, p, grp)
            /\ PosIn(TAcl[b.acl], y) > 0 /\ [y EXCEPT !.log = ""] \notin moved
            /\ (j < PosIn(acl[c], x)) # (PosIn(TAcl[b.acl], y) < PosIn(TAcl[b.acl], x))

AclUnsafe   == \E b \in SafePairs : Unsafe(b) # {}
AclUnsafeKF == IF \A b \in SafePairs : \A p \in Unsafe(b) : H2(b, p) THEN "H2"
               ELSE IF \A b \in SafePairs : \A p \in Unsafe(b) : H2(b, p) \/ H3(b, p) THEN "H3"
               ELSE ""

RouteUnsafe ==
  \E f \in TFams : \E r \in DRoute : /\ r.fam = f /\ (\E q \in TRoute : q.fam = f /\ q.dst = r.dst)
                                     /\ ~\E c \in route : c.fam = f /\ c.dst = r.dst

-----------------------------------------------------------------------------
\* C18: the ACL the script built on the empty device is the effective (merged) target
IsMerge == "parts" \in DOMAIN T
MergedAcl == LET c == CurAcl("inside", "in") IN IF c = "" \/ c \notin DOMAIN acl THEN <<>> ELSE acl[c]
MergeOK == Admissible(MergedAcl, T.parts.v4, T.parts.v6, T.parts.pre, T.parts.app)

Post(j) == acl = AclOf(j) /\ grp = GrpOf(j) /\ bind = BindOf(j) /\ route = RouteOf(j)

Chk(ok, tag, detail, kf) == ok \/ PrintT(<<"VERR", LastEv.t, l, tag, detail, kf>>)

CompleteEntry == IsChange(LastEv) /\ LastEv.half \in {0, 2}

Mon ==
  /\ Chk(~(err # "" /\ errl = l), "C08", err, "")
  /\ Chk(LastEv.ev = "Init" \/ FrameViol = "", "C07", FrameViol,
         IF KF_SharedGroupEdit THEN "SharedGroupEdit" ELSE "")
  /\ Chk(~(CompleteEntry /\ I0.safe /\ AclUnsafe), "C14", "access-list", AclUnsafeKF)
  /\ Chk(~(CompleteEntry /\ I0.safe /\ RouteUnsafe), "C14", "route", "")
  /\ Chk(LastEv.ev \in {"Resume", "Done"} => Post(LastEv.post), "HARNESS", "post state of replica differs", "")
  /\ Chk(LastEv.ev = "Done" /\ IsMerge => MergeOK, "C18",
         IF IsMerge THEN Why(MergedAcl, T.parts.v4, T.parts.v6, T.parts.pre, T.parts.app) ELSE "", "")
  \* C18: a raw entry that cannot be merged produces an error or a warning naming it
  /\ Chk(LastEv.ev = "Unmergeable" => (LastEv.rc # 0 \/ LastEv.warned) /\ LastEv.named, "C18",
         "raw entry that cannot be merged was dropped silently", "")
  /\ Chk(LastEv.ev = "Done" /\ ~IsMerge => Equivalent, "EQUIV", IF nchg = 0 THEN "unchanged" ELSE "final", "")
  /\ Chk(LastEv.ev = "Done" => LastEv.n2 = 0, "FIXPOINT", "second compare reports changes", "")

Accepted == TLCGet("stats").diameter = Len(Trace)
=============================================================================
