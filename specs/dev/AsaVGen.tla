------------------------------- MODULE AsaVGen -------------------------------
(* Input universe F5: the ASA VPN object graph.  A side is built from options: *)
(* the user's attributes (filter ACL, group-policy), the content of the        *)
(* group-policy (timeout, pool, filter), a certificate map -> tunnel-group ->  *)
(* group-policy chain bound by tunnel-group-map, generated or plain names on   *)
(* the device, and hand-made objects outside Netspoc's scope.                  *)
EXTENDS Integers, Sequences, FiniteSets, TLC, Json, Randomization

CONSTANTS Fam, MaxLen
VARIABLES dev, tgt

L(m, t, r) == [m |-> m, t |-> t, r |-> r]
O(kind, name, gen, lines) == [kind |-> kind, name |-> name, gen |-> gen, lines |-> lines]
Key(kind, name) == kind \o "|" \o name
F(S) == [k \in {x[1] : x \in S} |-> (CHOOSE x \in S : x[1] = k)[2]]      \* set of <<key, obj>> -> function

UOpts == {"none", "plain", "filterA", "filterB", "gp", "gp+filterA"}
GOpts == {"idle60", "idle30", "pool", "filterA"}

\* cseq: sequence number of the certificate map rule (the device may number it differently)
\* tty: type of the tunnel-group (a changed type means that no line of the tunnel-group matches: it is replaced)
BuildT(uopt, idle, gopt, topt, sfx, ovl, two, cseq, tty) ==
  LET gen   == sfx # ""
      aclA  == "vpnfA" \o sfx    aclB == "vpnfB" \o sfx   gpn == "VPN-group" \o sfx   pooln == "pool" \o sfx
      cmn   == "ca-map" \o sfx   tgn == "VPN-tunnel" \o sfx
      useGp == uopt \in {"gp", "gp+filterA"} \/ topt = "map" \/ ovl = "foreign-tg"
      useA  == uopt \in {"filterA", "gp+filterA"} \/ (useGp /\ gopt = "filterA")
      useB  == uopt = "filterB"
      usePool == useGp /\ gopt = "pool"
      user  == IF uopt = "none" THEN {} ELSE
               {<<Key("user", "u1"), O("user", "u1", FALSE,
                   {L("", "nopassword", <<>>), L("attributes", "service-type remote-access", <<>>),
                    L("attributes", "vpn-idle-timeout " \o idle, <<>>)}
                   \cup (IF uopt \in {"filterA", "gp+filterA"} THEN {L("attributes", "vpn-filter value $", <<Key("acl", aclA)>>)} ELSE {})
                   \cup (IF uopt = "filterB" THEN {L("attributes", "vpn-filter value $", <<Key("acl", aclB)>>)} ELSE {})
                   \cup (IF uopt \in {"gp", "gp+filterA"} THEN {L("attributes", "vpn-group-policy $", <<Key("gp", gpn)>>)} ELSE {}))>>}
      gp    == IF ~useGp THEN {} ELSE
               {<<Key("gp", gpn), O("gp", gpn, gen,
                   {L("", "internal", <<>>)}
                   \cup (IF gopt = "idle30" THEN {L("attributes", "vpn-idle-timeout 30", <<>>)} ELSE {L("attributes", "vpn-idle-timeout 60", <<>>)})
                   \cup (IF gopt = "pool" THEN {L("attributes", "address-pools value $", <<Key("pool", pooln)>>)} ELSE {})
                   \cup (IF gopt = "filterA" THEN {L("attributes", "vpn-filter value $", <<Key("acl", aclA)>>)} ELSE {}))>>}
      acls  == (IF useA THEN {<<Key("acl", aclA), O("acl", aclA, gen,
                                  {L("", "extended permit ip host 10.1.1.1 any4", <<>>)}
                                  \cup (IF two THEN {L("", "extended permit ip host 10.1.1.3 any4", <<>>)} ELSE {}))>>} ELSE {})
               \cup (IF useB THEN {<<Key("acl", aclB), O("acl", aclB, gen, {L("", "extended permit ip host 10.1.1.2 any4", <<>>)})>>} ELSE {})
      pool  == IF usePool THEN {<<Key("pool", pooln), O("pool", pooln, gen, {L("", "10.1.219.192-10.1.219.255 mask 0.0.0.63", <<>>)})>>} ELSE {}
      chain == IF topt # "map" THEN {} ELSE
               {<<Key("cm", cmn), O("cm", cmn, gen, {L(cseq, "subject-name attr ea co @sub.example.com", <<>>)})>>,
                <<Key("tg", tgn), O("tg", tgn, gen,
                    IF tty = "remote-access"
                    THEN {L("", "type " \o tty, <<>>), L("general-attributes", "default-group-policy $", <<Key("gp", gpn)>>)}
                    \* another type with no line in common: the tunnel-group is replaced, not edited
                    ELSE {L("", "type " \o tty, <<>>), L("ipsec-attributes", "peer-id-validate nocheck", <<>>)})>>,
                <<Key("tgm", ""), O("tgm", "", FALSE, {L(cseq, "$ # $", <<Key("cm", cmn), Key("tg", tgn)>>)})>>}
      extra == IF ovl = "foreign" THEN
               {<<Key("gp", "foreign-gp"), O("gp", "foreign-gp", FALSE, {L("", "internal", <<>>),
                                               L("attributes", "vpn-filter value $", <<Key("acl", "foreign-acl")>>)})>>,
                <<Key("acl", "foreign-acl"), O("acl", "foreign-acl", FALSE, {L("", "extended permit ip host 10.1.2.2 any4", <<>>)})>>}
               ELSE IF ovl = "foreign-tg" THEN
               \* a hand-made tunnel-group that uses the (possibly generated) group-policy of the device
               {<<Key("tg", "UNKNOWN"), O("tg", "UNKNOWN", FALSE, {L("", "type remote-access", <<>>),
                                               L("general-attributes", "default-group-policy $", <<Key("gp", gpn)>>)})>>}
               ELSE IF ovl = "leftover" THEN
               {<<Key("gp", "old-DRC-7"), O("gp", "old-DRC-7", TRUE, {L("", "internal", <<>>)})>>}
               ELSE {}
  IN [objs |-> F(user \cup gp \cup acls \cup pool \cup chain \cup extra)]

BuildC(uopt, idle, gopt, topt, sfx, ovl, two, cseq) == BuildT(uopt, idle, gopt, topt, sfx, ovl, two, cseq, "remote-access")
Build(uopt, idle, gopt, topt, sfx, ovl, two) == BuildC(uopt, idle, gopt, topt, sfx, ovl, two, "20")

F5 ==
  \E ud, ut \in UOpts, id, it \in {"60", "30"}, gd, gt \in GOpts, td, tt \in {"none", "map"},
     sfx \in {"", "-DRC-0"}, ovl \in {"none", "foreign", "foreign-tg", "leftover"}, twod, twot \in BOOLEAN, cs \in {"20", "10"}, ty \in {"remote-access", "ipsec-l2l"} :
    /\ (ud \notin {"gp", "gp+filterA"} /\ td = "none" /\ ovl # "foreign-tg") => gd = "idle60"   \* group-policy unused: one representative
    /\ (ut \notin {"gp", "gp+filterA"} /\ tt = "none") => gt = "idle60"
    /\ (ud = "none") => id = "60"
    /\ (ut = "none") => it = "60"
    \* the filter ACL has one or two lines (line edits of an ACL that a sub-command references)
    /\ (~(ud \in {"filterA", "gp+filterA"} \/ gd = "filterA") => ~twod)
    /\ (ovl = "foreign-tg" /\ ud \notin {"gp", "gp+filterA"} /\ td = "none" => sfx = "-DRC-0")
    /\ (~(ut \in {"filterA", "gp+filterA"} \/ gt = "filterA") => ~twot)
    /\ (td = "none" => cs = "20" /\ ty = "remote-access")
    /\ dev = BuildT(ud, id, gd, td, sfx, ovl, twod, cs, ty)
    /\ tgt = Build(ut, it, gt, tt, "", "none", twot)

(* F5U: several users (several anchors of one prefix) that share or do not share a group-policy and *)
(* filter ACLs; all of them change in one run                                                      *)
UserObj(n, idle, fa, g) ==
  <<Key("user", n), O("user", n, FALSE,
      {L("", "nopassword", <<>>), L("attributes", "service-type remote-access", <<>>), L("attributes", "vpn-idle-timeout " \o idle, <<>>)}
      \cup (IF fa = "" THEN {} ELSE {L("attributes", "vpn-filter value $", <<Key("acl", fa)>>)})
      \cup (IF g = "" THEN {} ELSE {L("attributes", "vpn-group-policy $", <<Key("gp", g)>>)}))>>
AclObj(n, gen, h) == <<Key("acl", n), O("acl", n, gen, {L("", "extended permit ip host " \o h \o " any4", <<>>)})>>
GpObj(n, gen, idle) == <<Key("gp", n), O("gp", n, gen, {L("", "internal", <<>>), L("attributes", "vpn-idle-timeout " \o idle, <<>>)})>>
\* per user: which filter ACL ("" | "A" | "B") and which group-policy ("" | "G" | "H") it uses
UCfg(us, sfx) ==
  LET gen == sfx # ""
      an(x) == "vpnf" \o x \o sfx   gn(x) == "VPN-group" \o x \o sfx
      fas == {us[u].f : u \in DOMAIN us} \ {""}   gs == {us[u].g : u \in DOMAIN us} \ {""}
  IN [objs |-> F({UserObj(u, us[u].idle, IF us[u].f = "" THEN "" ELSE an(us[u].f), IF us[u].g = "" THEN "" ELSE gn(us[u].g)) : u \in DOMAIN us}
                 \cup {AclObj(an(x), gen, IF x = "A" THEN "10.1.1.1" ELSE "10.1.1.2") : x \in fas}
                 \cup {GpObj(gn(x), gen, IF x = "G" THEN "60" ELSE "30") : x \in gs})]
UOpt2 == [f : {"", "A", "B"}, g : {"", "G", "H"}, idle : {"60", "30"}]
F5U ==
  \E d \in [{"u1", "u2", "u3"} -> UOpt2], t \in [{"u1", "u2", "u3"} -> UOpt2], sfx \in {"", "-DRC-0"} :
    \* u3 is a bystander with fixed settings on both sides; u1 and u2 vary
    /\ d["u3"] = [f |-> "A", g |-> "G", idle |-> "60"] /\ t["u3"] = d["u3"]
    /\ d["u1"].idle = "60" /\ d["u2"].idle = "60"
    /\ dev = UCfg(d, sfx)
    /\ tgt = UCfg(t, "")

(* F5N: the device knows only the bystander u3; the users u1 and u2 are both new (several new anchors in one run) *)
F5N ==
  \E t \in [{"u1", "u2", "u3"} -> UOpt2], sfx \in {"", "-DRC-0"} :
    /\ t["u3"] = [f |-> "A", g |-> "G", idle |-> "60"]
    /\ dev = UCfg([u \in {"u3"} |-> t[u]], sfx)
    /\ tgt = UCfg(t, "")

(* F6L: crypto maps.  Entries are matched by peer; the device's sequence numbers, map name, ACL and *)
(* transform-set names differ from the target's; transform-sets are matched by content.             *)
CEntryOpts == [peer : {"10.9.9.1", "10.9.9.2", "10.9.9.3"}, acl : {"", "A", "B"}, ts : {"T1", "T2"}, pfs : BOOLEAN]
CEntrySets(seqs) == UNION {{e \in [S -> CEntryOpts] : \A x, y \in S : x # y => e[x].peer # e[y].peer} :
                           S \in {S \in SUBSET seqs : Cardinality(S) <= 2}}
SeqStr(n) == CASE n = 1 -> "1" [] n = 2 -> "2" [] n = 3 -> "3"
AclLine(c) == IF c = "A" THEN "extended permit ip any4 10.0.1.0 255.255.255.0" ELSE "extended permit ip any4 10.0.2.0 255.255.255.0"
TsText(c) == IF c = "T1" THEN "esp-3des esp-md5-hmac" ELSE "esp-aes-192 esp-sha-hmac"
\* tsn maps the content of a transform-set to its name on this side
\* dyn: "" or the content of the crypto ACL of a dynamic map bound at sequence number dseq
Build6(es, mapn, sfx, tsn, bound, dyn, dseq) ==
  LET S == DOMAIN es
      dname == "dyn-map" \o sfx
      dacl  == "crypto-dyn" \o sfx
      dyno  == IF dyn = "" THEN {} ELSE
               {<<Key("acl", dacl), O("acl", dacl, sfx # "", {L("", AclLine(dyn), <<>>)})>>,
                <<Key("dmap", dname), O("dmap", dname, sfx # "", {L("10", "match address $", <<Key("acl", dacl)>>),
                                                                  L("10", "set ikev1 transform-set $", <<Key("ts", tsn["T1"])>>)})>>}
      dline == IF dyn = "" THEN {} ELSE {L(dseq, "ipsec-isakmp dynamic $", <<Key("dmap", dname)>>)}
      gen == sfx # ""
      acln(x) == "crypto-" \o SeqStr(x) \o sfx
      acls == {<<Key("acl", acln(x)), O("acl", acln(x), gen, {L("", AclLine(es[x].acl), <<>>)})>> : x \in {y \in S : es[y].acl # ""}}
      tss  == {<<Key("ts", tsn[c]), O("ts", tsn[c], gen, {L("", TsText(c), <<>>)})>> : c \in {es[y].ts : y \in S} \cup (IF dyn = "" THEN {} ELSE {"T1"})}
      lines == UNION {{L(SeqStr(x), "set peer " \o es[x].peer, <<>>),
                       L(SeqStr(x), "set ikev1 transform-set $", <<Key("ts", tsn[es[x].ts])>>)}
                      \cup (IF es[x].acl # "" THEN {L(SeqStr(x), "match address $", <<Key("acl", acln(x))>>)} ELSE {})
                      \cup (IF es[x].pfs THEN {L(SeqStr(x), "set pfs group5", <<>>)} ELSE {}) : x \in S}
      cmap == IF S = {} /\ dyn = "" THEN {} ELSE {<<Key("cmap", mapn), O("cmap", mapn, FALSE, lines \cup dline)>>}
      cmi  == IF (S = {} /\ dyn = "") \/ ~bound THEN {} ELSE {<<Key("cmi", "inside"), O("cmi", "inside", FALSE, {L("", "$ interface", <<Key("cmap", mapn)>>)})>>}
  IN [objs |-> F(acls \cup tss \cup cmap \cup cmi \cup dyno)]
F6L ==
  \E ed \in RandomSubset(25, CEntrySets({1, 2, 3})), et \in RandomSubset(22, CEntrySets({1, 2})),
     mapn \in {"crypto-inside", "crypto-x"}, sfx \in {"", "-DRC-0"},
     tsd \in {[T1 |-> "Trans1", T2 |-> "Trans2"], [T1 |-> "Trans2", T2 |-> "Trans1"], [T1 |-> "Trans1-DRC-0", T2 |-> "Trans2-DRC-0"]},
     dd, dt \in {"", "", "A", "B"}, ds \in {"65535", "65000"} :
    /\ DOMAIN et \in {{}, {1}, {1, 2}}
    /\ (DOMAIN ed = {} /\ dd = "" => mapn = "crypto-inside" /\ sfx = "" /\ tsd = [T1 |-> "Trans1", T2 |-> "Trans2"])
    /\ (dd = "" => ds = "65535")
    /\ dev = Build6(ed, mapn, sfx, tsd, TRUE, dd, ds)
    /\ tgt = Build6(et, "crypto-inside", "", [T1 |-> "Trans1", T2 |-> "Trans2"], TRUE, dt, "65535")

(* F6P: crypto map entries that use ikev2 ipsec-proposals (objects whose settings live in a sub-mode; the     *)
(* header line alone creates an EMPTY proposal).  Proposals are matched by content, names differ; the device *)
(* may hold a spare generated proposal: with the content the target wants, with other content, or header-only *)
PropText(c) == CASE c = "P1" -> {"protocol esp encryption aes-256", "protocol esp integrity sha-256"}
                 [] c = "P2" -> {"protocol esp encryption aes", "protocol esp integrity sha-1"}
                 [] OTHER -> {}
PropObj(name, c, gen) == <<Key("prop", name), O("prop", name, gen, {L(".", t, <<>>) : t \in PropText(c)})>>
PEntrySets(doms) == UNION {{e \in [S -> [peer : {"10.9.9.1", "10.9.9.2"}, c : {"P1", "P2"}]] : \A x, y \in S : x # y => e[x].peer # e[y].peer} : S \in doms}
BuildP(es, pn, gen, spare) ==
  LET S == DOMAIN es
      props == {PropObj(pn[c], c, gen) : c \in {es[x].c : x \in S}}
               \cup (IF spare = "none" THEN {} ELSE {PropObj("PropS-DRC-0", spare, TRUE)})
      lines == UNION {{L(SeqStr(x), "set peer " \o es[x].peer, <<>>),
                       L(SeqStr(x), "set ikev2 ipsec-proposal $", <<Key("prop", pn[es[x].c])>>)} : x \in S}
      cmap == IF S = {} THEN {} ELSE {<<Key("cmap", "crypto-inside"), O("cmap", "crypto-inside", FALSE, lines)>>}
      cmi  == IF S = {} THEN {} ELSE {<<Key("cmi", "inside"), O("cmi", "inside", FALSE, {L("", "$ interface", <<Key("cmap", "crypto-inside")>>)})>>}
  IN [objs |-> F(props \cup cmap \cup cmi)]
F6P ==
  \E ed \in PEntrySets(SUBSET {1, 2}), et \in PEntrySets({{1}, {1, 2}}),      \* (an empty target leaves the interface's crypto map alone)
     pnd \in {[P1 |-> "Prop1", P2 |-> "Prop2"], [P1 |-> "Prop2", P2 |-> "Prop1"], [P1 |-> "Prop1-DRC-0", P2 |-> "Prop2-DRC-0"]},
     spare \in {"none", "P1", "P2", "E"} :
    /\ dev = BuildP(ed, pnd, pnd["P1"] = "Prop1-DRC-0", spare)
    /\ tgt = BuildP(et, [P1 |-> "Prop1", P2 |-> "Prop2"], FALSE, "none")

(* M6: merge of the Netspoc crypto map with settings and a dynamic map from the raw file (C18).  A raw setting *)
(* replaces the Netspoc setting of the same kind, every other raw line is added; the device is empty            *)
RawSettings == {"set security-association lifetime seconds 28800", "set security-association lifetime kilobytes 4608000",
                "set pfs group19", "set nat-t-disable"}
M6 ==
  \E rs \in SUBSET RawSettings, nl, np, rd \in BOOLEAN :
    LET ts   == <<Key("ts", "Trans1"), O("ts", "Trans1", FALSE, {L("", "esp-3des esp-md5-hmac", <<>>)})>>
        base == {L("1", "set peer 10.9.9.1", <<>>), L("1", "set ikev1 transform-set $", <<Key("ts", "Trans1")>>)}
        nsp  == base \cup (IF nl THEN {L("1", "set security-association lifetime seconds 3600", <<>>)} ELSE {})
                     \cup (IF np THEN {L("1", "set pfs group5", <<>>)} ELSE {})
        keep == base \cup (IF nl /\ "set security-association lifetime seconds 28800" \notin rs
                           THEN {L("1", "set security-association lifetime seconds 3600", <<>>)} ELSE {})
                     \cup (IF np /\ "set pfs group19" \notin rs THEN {L("1", "set pfs group5", <<>>)} ELSE {})
        rawl == {L("1", x, <<>>) : x \in rs}
        \* a dynamic map that only the raw file defines, with two sequence numbers
        dynl == {L("10", "set pfs group21", <<>>), L("10", "set ikev1 transform-set $", <<Key("ts", "Trans1")>>), L("20", "set pfs group19", <<>>)}
        dyno == IF rd THEN {<<Key("dmap", "dynR"), O("dmap", "dynR", FALSE, dynl)>>} ELSE {}
        dynref == IF rd THEN {L("65000", "ipsec-isakmp dynamic $", <<Key("dmap", "dynR")>>)} ELSE {}
        cmi  == <<Key("cmi", "inside"), O("cmi", "inside", FALSE, {L("", "$ interface", <<Key("cmap", "crypto-inside")>>)})>>
        cfg(lines, extra) == [objs |-> F({ts, cmi, <<Key("cmap", "crypto-inside"), O("cmap", "crypto-inside", FALSE, lines)>>} \cup extra)]
    IN /\ rs # {} \/ rd
       /\ dev = [objs |-> F({})]
       /\ tgt = cfg(nsp, {}) @@ [parts |-> [rawlines |-> rs, rawdyn |-> rd, merged |-> cfg(keep \cup rawl \cup dynref, dyno)]]

Init == CASE Fam = "F5N" -> F5N [] Fam = "F6P" -> F6P [] Fam = "M6" -> M6 [] Fam = "F5U" -> F5U [] Fam = "F5" -> F5 [] Fam = "F6L" -> F6L
Next == UNCHANGED <<dev, tgt>>
Out == PrintT(<<"VOUT", ToJson([fam |-> Fam, dev |-> dev, tgt |-> tgt, tie |-> FALSE])>>)
=============================================================================
