------------------------------- MODULE AsaVGen -------------------------------
(* Input universe F5: the ASA VPN object graph.  A side is built from options: *)
(* the user's attributes (filter ACL, group-policy), the content of the        *)
(* group-policy (timeout, pool, filter), a certificate map -> tunnel-group ->  *)
(* group-policy chain bound by tunnel-group-map, generated or plain names on   *)
(* the device, and hand-made objects outside Netspoc's scope.                  *)
EXTENDS Integers, Sequences, FiniteSets, TLC, Json

CONSTANTS Fam, MaxLen
VARIABLES dev, tgt

L(m, t, r) == [m |-> m, t |-> t, r |-> r]
O(kind, name, gen, lines) == [kind |-> kind, name |-> name, gen |-> gen, lines |-> lines]
Key(kind, name) == kind \o "|" \o name
F(S) == [k \in {x[1] : x \in S} |-> (CHOOSE x \in S : x[1] = k)[2]]      \* set of <<key, obj>> -> function

UOpts == {"none", "plain", "filterA", "filterB", "gp", "gp+filterA"}
GOpts == {"idle60", "idle30", "pool", "filterA"}

Build(uopt, idle, gopt, topt, sfx, ovl, two) ==
  LET gen   == sfx # ""
      aclA  == "vpnfA" \o sfx    aclB == "vpnfB" \o sfx   gpn == "VPN-group" \o sfx   pooln == "pool" \o sfx
      cmn   == "ca-map" \o sfx   tgn == "VPN-tunnel" \o sfx
      useGp == uopt \in {"gp", "gp+filterA"} \/ topt = "map" \/ ovl = "foreign-tg"
      useA  == uopt \in {"filterA", "gp+filterA"} \/ (useGp /\ gopt = "filterA")
      useB  == uopt = "filterB"
      usePool == useGp /\ gopt = "pool"
      user  == IF uopt = "none" THEN {} ELSE
               {<<Key("user", "u1"), O("user", "u1", FALSE,
                   {L("", "nopassword", <<>>), L("attributes", "service-type remote-access", <<>>),
                    L("attributes", "vpn-idle-timeout " \o idle, <<>>)}
                   \cup (IF uopt \in {"filterA", "gp+filterA"} THEN {L("attributes", "vpn-filter value $", <<Key("acl", aclA)>>)} ELSE {})
                   \cup (IF uopt = "filterB" THEN {L("attributes", "vpn-filter value $", <<Key("acl", aclB)>>)} ELSE {})
                   \cup (IF uopt \in {"gp", "gp+filterA"} THEN {L("attributes", "vpn-group-policy $", <<Key("gp", gpn)>>)} ELSE {}))>>}
      gp    == IF ~useGp THEN {} ELSE
               {<<Key("gp", gpn), O("gp", gpn, gen,
                   {L("", "internal", <<>>)}
                   \cup (IF gopt = "idle30" THEN {L("attributes", "vpn-idle-timeout 30", <<>>)} ELSE {L("attributes", "vpn-idle-timeout 60", <<>>)})
                   \cup (IF gopt = "pool" THEN {L("attributes", "address-pools value $", <<Key("pool", pooln)>>)} ELSE {})
                   \cup (IF gopt = "filterA" THEN {L("attributes", "vpn-filter value $", <<Key("acl", aclA)>>)} ELSE {}))>>}
      acls  == (IF useA THEN {<<Key("acl", aclA), O("acl", aclA, gen,
                                  {L("", "extended permit ip host 10.1.1.1 any4", <<>>)}
                                  \cup (IF two THEN {L("", "extended permit ip host 10.1.1.3 any4", <<>>)} ELSE {}))>>} ELSE {})
               \cup (IF useB THEN {<<Key("acl", aclB), O("acl", aclB, gen, {L("", "extended permit ip host 10.1.1.2 any4", <<>>)})>>} ELSE {})
      pool  == IF usePool THEN {<<Key("pool", pooln), O("pool", pooln, gen, {L("", "10.1.219.192-10.1.219.255 mask 0.0.0.63", <<>>)})>>} ELSE {}
      chain == IF topt # "map" THEN {} ELSE
               {<<Key("cm", cmn), O("cm", cmn, gen, {L("20", "subject-name attr ea co @sub.example.com", <<>>)})>>,
                <<Key("tg", tgn), O("tg", tgn, gen, {L("", "type remote-access", <<>>),
                                                      L("general-attributes", "default-group-policy $", <<Key("gp", gpn)>>)})>>,
                <<Key("tgm", ""), O("tgm", "", FALSE, {L("", "$ 20 $", <<Key("cm", cmn), Key("tg", tgn)>>)})>>}
      extra == IF ovl = "foreign" THEN
               {<<Key("gp", "foreign-gp"), O("gp", "foreign-gp", FALSE, {L("", "internal", <<>>),
                                               L("attributes", "vpn-filter value $", <<Key("acl", "foreign-acl")>>)})>>,
                <<Key("acl", "foreign-acl"), O("acl", "foreign-acl", FALSE, {L("", "extended permit ip host 10.1.2.2 any4", <<>>)})>>}
               ELSE IF ovl = "foreign-tg" THEN
               \* a hand-made tunnel-group that uses the (possibly generated) group-policy of the device
               {<<Key("tg", "UNKNOWN"), O("tg", "UNKNOWN", FALSE, {L("", "type remote-access", <<>>),
                                               L("general-attributes", "default-group-policy $", <<Key("gp", gpn)>>)})>>}
               ELSE IF ovl = "leftover" THEN
               {<<Key("gp", "old-DRC-7"), O("gp", "old-DRC-7", TRUE, {L("", "internal", <<>>)})>>}
               ELSE {}
  IN [objs |-> F(user \cup gp \cup acls \cup pool \cup chain \cup extra)]

F5 ==
  \E ud, ut \in UOpts, id, it \in {"60", "30"}, gd, gt \in GOpts, td, tt \in {"none", "map"},
     sfx \in {"", "-DRC-0"}, ovl \in {"none", "foreign", "foreign-tg", "leftover"}, twod, twot \in BOOLEAN :
    /\ (ud \notin {"gp", "gp+filterA"} /\ td = "none" /\ ovl # "foreign-tg") => gd = "idle60"   \* group-policy unused: one representative
    /\ (ut \notin {"gp", "gp+filterA"} /\ tt = "none") => gt = "idle60"
    /\ (ud = "none") => id = "60"
    /\ (ut = "none") => it = "60"
    \* the filter ACL has one or two lines (line edits of an ACL that a sub-command references)
    /\ (~(ud \in {"filterA", "gp+filterA"} \/ gd = "filterA") => ~twod)
    /\ (ovl = "foreign-tg" /\ ud \notin {"gp", "gp+filterA"} /\ td = "none" => sfx = "-DRC-0")
    /\ (~(ut \in {"filterA", "gp+filterA"} \/ gt = "filterA") => ~twot)
    /\ dev = Build(ud, id, gd, td, sfx, ovl, twod)
    /\ tgt = Build(ut, it, gt, tt, "", "none", twot)

Init == Fam = "F5" /\ F5
Next == UNCHANGED <<dev, tgt>>
Out == PrintT(<<"VOUT", ToJson([fam |-> Fam, dev |-> dev, tgt |-> tgt, tie |-> FALSE])>>)
=============================================================================
