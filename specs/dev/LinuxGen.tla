------------------------------ MODULE LinuxGen ------------------------------
(* Input universes for the Linux family.  Rules are abstract (named) rules; the harness     *)
(* renders every ruleset in two spellings (Netspoc spelling, iptables-save spelling).       *)
EXTENDS Integers, Sequences, FiniteSets, TLC, Json

CONSTANTS Fam, MaxLen
VARIABLES dev, tgt

\* abstract rules: one per option family the normaliser knows
Rule(n, act) == [id |-> n, act |-> act]
Pool == {Rule("tcp80", "ACCEPT"), Rule("udprange", "ACCEPT"), Rule("state", "ACCEPT"), Rule("negsrc", "DROP"),
         Rule("mark", "MARK"), Rule("nosyn", "ACCEPT"), Rule("loglevel", "LOG"), Rule("drop", "DROP")}
InjSeqs(S, n) == UNION {{s \in [1..k -> S] : \A i, j \in 1..k : i # j => s[i] # s[j]} : k \in 0..n}
Chain(pol, rules) == [policy |-> pol, rules |-> rules]
NoFn == [x \in {} |-> {}]
Cfg(routes, tables) == [routes |-> routes, tables |-> tables]

Dsts == {"any", "n14", "n24", "n12", "h1"}     \* n14 and n24 share their network address
AllRoutes == [dst : Dsts, hop : {"gA", "gB"}]

(* R1: route sets; device and target may hold two routes to one destination *)
R1 ==
  \E ra \in SUBSET AllRoutes, rb \in SUBSET AllRoutes :
    /\ Cardinality(ra) <= MaxLen /\ Cardinality(rb) <= MaxLen /\ rb # {}
    /\ dev = Cfg(ra, [filter |-> [INPUT |-> Chain("DROP", <<>>)]])
    /\ tgt = Cfg(rb, [filter |-> [INPUT |-> Chain("DROP", <<>>)]])

(* I1: rulesets of table filter: policy, rules of INPUT, an optional user chain *)
Filter(pol, rules, uc) ==
  IF uc = <<>> THEN [INPUT |-> Chain(pol, rules)]
  ELSE [INPUT |-> Chain(pol, rules), c1 |-> Chain("-", uc)]
I1 ==
  \E pa, pb \in {"DROP", "ACCEPT"}, a, b \in InjSeqs(Pool, MaxLen),
     ua, ub \in {<<>>, <<Rule("tcp80", "ACCEPT")>>} :
    /\ dev = Cfg({}, [filter |-> Filter(pa, a, ua)])
    /\ tgt = Cfg({}, [filter |-> Filter(pb, b, ub)])

(* I2: several tables, a table only one side has *)
I2 ==
  \E a, b \in InjSeqs({Rule("tcp80", "ACCEPT"), Rule("drop", "DROP")}, 2),
     ma, mb \in {<<>>, <<Rule("mark", "MARK")>>, <<Rule("mark", "MARK"), Rule("drop", "DROP")>>},
     hasa, hasb \in BOOLEAN :
    /\ dev = Cfg({}, IF hasa THEN [filter |-> [INPUT |-> Chain("DROP", a)], mangle |-> [PREROUTING |-> Chain("ACCEPT", ma)]]
                     ELSE [filter |-> [INPUT |-> Chain("DROP", a)]])
    /\ tgt = Cfg({}, IF hasb THEN [filter |-> [INPUT |-> Chain("DROP", b)], mangle |-> [PREROUTING |-> Chain("ACCEPT", mb)]]
                     ELSE [filter |-> [INPUT |-> Chain("DROP", b)]])

(* I3: spellings.  One or two rules per side from a wider pool in which neighbouring rules differ in *)
(* one feature only (port, prefix length, negation, mask of a mark, state list, protocol number)      *)
PoolX == Pool \cup {Rule("src3", "DROP"), Rule("src22", "DROP"), Rule("net22", "DROP"), Rule("net23", "DROP"), Rule("tcp8000", "ACCEPT"), Rule("udp1024y", "ACCEPT"), Rule("tcp8080", "ACCEPT"), Rule("tcp80net", "ACCEPT"), Rule("tcp80h0", "ACCEPT"), Rule("sport", "ACCEPT"),
                    Rule("lowports", "ACCEPT"), Rule("udp1024x", "ACCEPT"), Rule("vrrp", "ACCEPT"), Rule("proto113", "ACCEPT"),
                    Rule("icmp8", "ACCEPT"), Rule("icmp0", "ACCEPT"), Rule("state1", "ACCEPT"), Rule("possrc", "DROP"),
                    Rule("negold", "DROP"), Rule("markhex", "MARK"), Rule("markmask", "MARK"), Rule("loginfo", "LOG"),
                    Rule("ifin", "ACCEPT"), Rule("ifout", "ACCEPT"), Rule("frag", "ACCEPT"), Rule("logtcp", "LOG"), Rule("logip", "LOG")}
I3 ==
  \E a, b \in InjSeqs(PoolX \ {Rule("drop", "DROP")}, 1), tail \in {<<>>, <<Rule("drop", "DROP")>>} :
    /\ dev = Cfg({}, [filter |-> [INPUT |-> Chain("DROP", a \o tail)]])
    /\ tgt = Cfg({}, [filter |-> [INPUT |-> Chain("DROP", b \o tail)]])

(* M1: merge of Netspoc rules with raw rules before / after [APPEND] (C18) *)
M1 ==
  \E v4 \in InjSeqs({Rule("tcp80", "ACCEPT"), Rule("state", "ACCEPT"), Rule("drop", "DROP"), Rule("negsrc", "DROP")}, MaxLen),
     pre \in InjSeqs({Rule("udprange", "ACCEPT"), Rule("loglevel", "LOG"), Rule("mark", "MARK")}, 3),
     app \in InjSeqs({Rule("nosyn", "ACCEPT"), Rule("rawdrop", "DROP")}, 2),
     xc \in BOOLEAN,             \* the raw file also defines a chain of its own
     xt \in {"none", "rawonly", "both"} :   \* ... a second table (behind the filter table, no COMMIT) that only it / that Netspoc has too
    /\ dev = Cfg({}, NoFn)
    /\ tgt = [routes |-> {}, tables |-> (IF xt = "both" THEN [filter |-> [INPUT |-> Chain("DROP", v4)],
                                                              mangle |-> [PREROUTING |-> Chain("ACCEPT", <<Rule("mark", "MARK")>>)]]
                                         ELSE [filter |-> [INPUT |-> Chain("DROP", v4)]]),
              parts |-> [v4 |-> v4, v6 |-> <<>>, pre |-> pre, app |-> app, xchain |-> xc, xtable |-> xt]]

Init == CASE Fam = "I3" -> I3 [] Fam = "R1" -> R1 [] Fam = "I1" -> I1 [] Fam = "I2" -> I2 [] Fam = "M1" -> M1
Next == UNCHANGED <<dev, tgt>>
Out == PrintT(<<"VOUT", ToJson([fam |-> Fam, dev |-> dev, tgt |-> tgt, tie |-> FALSE])>>)
=============================================================================
