-------------------------------- MODULE Panos --------------------------------
(***************************************************************************)
(* The candidate configuration of one PAN-OS vsys as an explicit state     *)
(* machine with the XML-API commands the tool emits: set (create / merge,  *)
(* on member lists: add), edit (replace, target must exist), delete (entry *)
(* or single member), move (rule before another rule).                     *)
(*                                                                         *)
(* rules : Seq of [name, action, src, dst, svc, extra]  (member sets)      *)
(* addr  : name -> value        grp  : name -> set of member names        *)
(* svc   : name -> definition   sgrp : name -> set of service names       *)
(***************************************************************************)
EXTENDS Integers, Sequences, FiniteSets, TLC

VARIABLES rules, addr, grp, svc, sgrp, err
dvars == <<rules, addr, grp, svc, sgrp, err>>
Latch(g) == IF err = "" THEN g ELSE err
Drop(f, k) == [x \in (DOMAIN f) \ {k} |-> f[x]]
Put(f, k, v) == [x \in (DOMAIN f) \cup {k} |-> IF x = k THEN v ELSE f[x]]

RuleIdx(n) == {i \in DOMAIN rules : rules[i].name = n}
HasRule(n) == RuleIdx(n) # {}
Idx(n) == CHOOSE i \in RuleIdx(n) : TRUE

AddrKnown(m) == m = "any" \/ m \in DOMAIN addr \/ m \in DOMAIN grp
SvcKnown(m)  == m \in {"any", "application-default"} \/ m \in DOMAIN svc \/ m \in DOMAIN sgrp
AddrRefd(m) == (\E i \in DOMAIN rules : m \in rules[i].src \cup rules[i].dst) \/ (\E g \in DOMAIN grp : m \in grp[g])
SvcRefd(m)  == (\E i \in DOMAIN rules : m \in rules[i].svc) \/ (\E g \in DOMAIN sgrp : m \in sgrp[g])

Un(f) == UNCHANGED f

(* set .../rules/entry[@name=N]  element=<whole rule> : appended as last rule *)
SetRuleG(r) ==
  CASE HasRule(r.name) -> "set of a rule whose name already exists"
    [] ~(\A m \in r.src \cup r.dst : AddrKnown(m)) -> "rule references unknown address or address-group"
    [] ~(\A m \in r.svc : SvcKnown(m)) -> "rule references unknown service"
    [] OTHER -> ""
SetRule(r) == LET g == SetRuleG(r) IN
  /\ err' = Latch(g) /\ rules' = (IF g = "" THEN Append(rules, r) ELSE rules) /\ Un(<<addr, grp, svc, sgrp>>)

(* set .../rules/entry[@name=N]/source  element=<member>..</member> : members are ADDED *)
SetRuleListG(n, f, ms) ==
  CASE ~HasRule(n) -> "rule does not exist"
    [] ~(\A m \in ms : AddrKnown(m)) -> "rule references unknown address or address-group"
    [] OTHER -> ""
SetRuleList(n, f, ms) == LET g == SetRuleListG(n, f, ms) IN
  /\ err' = Latch(g)
  /\ rules' = (IF g # "" THEN rules
               ELSE IF f = "src" THEN [rules EXCEPT ![Idx(n)].src = @ \cup ms] ELSE [rules EXCEPT ![Idx(n)].dst = @ \cup ms])
  /\ Un(<<addr, grp, svc, sgrp>>)

(* edit .../rules/entry[@name=N]/source|destination|service : REPLACES the member list *)
EditRuleListG(n, f, ms) ==
  CASE ~HasRule(n) -> "edit of a rule that does not exist"
    [] f \in {"src", "dst"} /\ ~(\A m \in ms : AddrKnown(m)) -> "rule references unknown address or address-group"
    [] f = "svc" /\ ~(\A m \in ms : SvcKnown(m)) -> "rule references unknown service"
    [] OTHER -> ""
EditRuleList(n, f, ms) == LET g == EditRuleListG(n, f, ms) IN
  /\ err' = Latch(g)
  /\ rules' = (IF g # "" THEN rules
               ELSE CASE f = "src" -> [rules EXCEPT ![Idx(n)].src = ms]
                      [] f = "dst" -> [rules EXCEPT ![Idx(n)].dst = ms]
                      [] OTHER     -> [rules EXCEPT ![Idx(n)].svc = ms])
  /\ Un(<<addr, grp, svc, sgrp>>)

(* delete .../rules/entry[@name=N]/source/member[text()=M] *)
DelRuleMemberG(n, f, m) ==
  CASE ~HasRule(n) -> "rule does not exist"
    [] m \notin (IF f = "src" THEN rules[Idx(n)].src ELSE rules[Idx(n)].dst) -> "member to be deleted does not exist"
    [] OTHER -> ""
DelRuleMember(n, f, m) == LET g == DelRuleMemberG(n, f, m) IN
  /\ err' = Latch(g)
  /\ rules' = (IF g # "" THEN rules
               ELSE IF f = "src" THEN [rules EXCEPT ![Idx(n)].src = @ \ {m}] ELSE [rules EXCEPT ![Idx(n)].dst = @ \ {m}])
  /\ Un(<<addr, grp, svc, sgrp>>)

(* delete .../rules/entry[@name=N] *)
DelRuleG(n) == IF ~HasRule(n) THEN "rule to be deleted does not exist" ELSE ""
DelRule(n) == LET g == DelRuleG(n) IN
  /\ err' = Latch(g)
  /\ rules' = (IF g = "" THEN SelectSeq(rules, LAMBDA r : r.name # n) ELSE rules)
  /\ Un(<<addr, grp, svc, sgrp>>)

(* move .../rules/entry[@name=N]  where=before dst=D *)
MoveG(n, d) ==
  CASE ~HasRule(n) -> "rule to be moved does not exist"
    [] ~HasRule(d) -> "destination of move does not exist"
    [] OTHER -> ""
MoveRule(n, d) == LET g == MoveG(n, d)
                      r == rules[Idx(n)]
                      rest == SelectSeq(rules, LAMBDA x : x.name # n)
                      k == CHOOSE i \in DOMAIN rest : rest[i].name = d
                  IN
  /\ err' = Latch(g)
  /\ rules' = (IF g = "" /\ n # d THEN SubSeq(rest, 1, k - 1) \o <<r>> \o SubSeq(rest, k, Len(rest)) ELSE rules)
  /\ Un(<<addr, grp, svc, sgrp>>)

(* address / service objects: set creates or merges, edit replaces an existing one *)
SetAddr(n, v) == /\ addr' = Put(addr, n, v) /\ Un(<<rules, grp, svc, sgrp, err>>)
EditAddrG(n) == IF n \notin DOMAIN addr THEN "edit of an address that does not exist" ELSE ""
EditAddr(n, v) == LET g == EditAddrG(n) IN
  /\ err' = Latch(g) /\ addr' = (IF g = "" THEN Put(addr, n, v) ELSE addr) /\ Un(<<rules, grp, svc, sgrp>>)
SetSvc(n, v) == /\ svc' = Put(svc, n, v) /\ Un(<<rules, addr, grp, sgrp, err>>)
EditSvcG(n) == IF n \notin DOMAIN svc THEN "edit of a service that does not exist" ELSE ""
EditSvc(n, v) == LET g == EditSvcG(n) IN
  /\ err' = Latch(g) /\ svc' = (IF g = "" THEN Put(svc, n, v) ELSE svc) /\ Un(<<rules, addr, grp, sgrp>>)

(* set .../address-group/entry[@name=G]/static  element=members : members are ADDED *)
SetGroupG(n, ms) == IF ~(\A m \in ms : m \in DOMAIN addr) THEN "address-group references unknown address" ELSE ""
SetGroup(n, ms) == LET g == SetGroupG(n, ms) IN
  /\ err' = Latch(g)
  /\ grp' = (IF g # "" THEN grp ELSE IF n \in DOMAIN grp THEN [grp EXCEPT ![n] = @ \cup ms] ELSE Put(grp, n, ms))
  /\ Un(<<rules, addr, svc, sgrp>>)
DelGroupMemberG(n, m) ==
  CASE n \notin DOMAIN grp -> "address-group does not exist"
    [] m \notin grp[n] -> "member to be deleted does not exist"
    [] OTHER -> ""
DelGroupMember(n, m) == LET g == DelGroupMemberG(n, m) IN
  /\ err' = Latch(g) /\ grp' = (IF g = "" THEN [grp EXCEPT ![n] = @ \ {m}] ELSE grp) /\ Un(<<rules, addr, svc, sgrp>>)

SetSGroupG(n, ms) == IF ~(\A m \in ms : m \in DOMAIN svc) THEN "service-group references unknown service" ELSE ""
SetSGroup(n, ms) == LET g == SetSGroupG(n, ms) IN
  /\ err' = Latch(g)
  /\ sgrp' = (IF g # "" THEN sgrp ELSE IF n \in DOMAIN sgrp THEN [sgrp EXCEPT ![n] = @ \cup ms] ELSE Put(sgrp, n, ms))
  /\ Un(<<rules, addr, grp, svc>>)

(* delete of objects: nothing that is still referenced may be deleted *)
DelObjG(k, n) ==
  CASE k = "addr"   /\ n \notin DOMAIN addr -> "address to be deleted does not exist"
    [] k = "group"  /\ n \notin DOMAIN grp  -> "address-group to be deleted does not exist"
    [] k = "svc"    /\ n \notin DOMAIN svc  -> "service to be deleted does not exist"
    [] k = "sgroup" /\ n \notin DOMAIN sgrp -> "service-group to be deleted does not exist"
    [] k \in {"addr", "group"} /\ AddrRefd(n) -> "referenced address or address-group deleted"
    [] k \in {"svc", "sgroup"} /\ SvcRefd(n)  -> "referenced service or service-group deleted"
    [] OTHER -> ""
DelObj(k, n) == LET g == DelObjG(k, n) IN
  /\ err' = Latch(g)
  /\ addr' = (IF g = "" /\ k = "addr" THEN Drop(addr, n) ELSE addr)
  /\ grp'  = (IF g = "" /\ k = "group" THEN Drop(grp, n) ELSE grp)
  /\ svc'  = (IF g = "" /\ k = "svc" THEN Drop(svc, n) ELSE svc)
  /\ sgrp' = (IF g = "" /\ k = "sgroup" THEN Drop(sgrp, n) ELSE sgrp)
  /\ Un(rules)

Resume == UNCHANGED dvars
=============================================================================
