------------------------------ MODULE PanosGen ------------------------------
(* Input universes for the PAN-OS family: pairs of vsys configurations.      *)
EXTENDS Integers, Sequences, FiniteSets, TLC, Json

CONSTANTS Fam, MaxLen
VARIABLES dev, tgt

AddrVal == [a1 |-> "10.1.1.1/32", a2 |-> "10.1.1.2/32", a3 |-> "10.1.2.0/24"]
SvcVal  == [s80 |-> "tcp/80", s53 |-> "udp/53", s22 |-> "tcp/22"]
Rule(n, act, s, d, v, x) == [name |-> n, action |-> act, src |-> s, dst |-> d, svc |-> v, extra |-> x]
InjSeqs(S, n) == UNION {{s \in [1..k -> S] : \A i, j \in 1..k : i # j => s[i] # s[j]} : k \in 0..n}
Sub(f, S) == [x \in S |-> f[x]]

\* objects a configuration needs for its rules (Netspoc only emits what it uses)
AddrsOf(rs, g) == UNION {(rs[i].src \cup rs[i].dst) \cap ((DOMAIN AddrVal) \cup {"a6", "a9"}) : i \in DOMAIN rs}
                  \cup UNION {g[n] : n \in DOMAIN g}
GroupsOf(rs) == UNION {(rs[i].src \cup rs[i].dst) \cap {"g0", "g1", "g0-1"} : i \in DOMAIN rs}
SvcsOf(rs, sg) == UNION {rs[i].svc \cap (DOMAIN SvcVal) : i \in DOMAIN rs} \cup UNION {sg[n] : n \in DOMAIN sg}
Cfg(rs, g, sg, av, sv) ==
  [rules |-> rs, addrs |-> Sub(av, AddrsOf(rs, g)), groups |-> g, svcs |-> Sub(sv, SvcsOf(rs, sg)), sgroups |-> sg]
NoFn == [x \in {} |-> {}]
Named(seq, pfx) == [i \in DOMAIN seq |-> [seq[i] EXCEPT !.name = pfx[i]]]

(* P1: rule lists with insert / delete / reorder over distinct bodies with address lists *)
Bodies == {Rule("", "allow", {"a1"}, {"a3"}, {"s80"}, ""), Rule("", "allow", {"a1", "a2"}, {"any"}, {"s53"}, ""),
           Rule("", "deny", {"any"}, {"a3"}, {"any"}, ""), Rule("", "allow", {"a2"}, {"a3"}, {"s80", "s22"}, "")}
DevNames == <<"r1", "r2", "r3", "r4">>
TgtNames == <<"r1", "r2", "r3", "r4">>
\* device rule names after earlier approves: a renamed rule r1-1 / r2-1 next to r1 / r2
DevNames2 == <<"r1", "r1-1", "r2", "r2-1">>
P1 ==
  \E a, b \in InjSeqs(Bodies, MaxLen), dn \in {DevNames, DevNames2} :
    /\ (a = <<>> => dn = DevNames)
    /\ dev = Cfg(Named(a, dn), NoFn, NoFn, AddrVal, SvcVal)
    /\ tgt = Cfg(Named(b, TgtNames), NoFn, NoFn, AddrVal, SvcVal)

(* P2: address-groups renamed / shared / split between rules, name clashes g0 vs g0-1 *)
GBodies(g, h) == {Rule("", "allow", {g}, {"a3"}, {"s80"}, ""), Rule("", "allow", {h}, {"any"}, {"s53"}, ""),
                  Rule("", "allow", {g}, {"any"}, {"s53"}, ""),            \* the same group used by two rules
                  Rule("", "allow", {"a1", "a2"}, {"a3"}, {"s80"}, "")}
Members == {{"a1"}, {"a1", "a2"}, {"a2", "a3"}}
Used(rs, cand) == {n \in cand : \E i \in DOMAIN rs : n \in rs[i].src \cup rs[i].dst}
\* rs: every target rule asks for another service (s22), so that rules sharing a group are all replaced as a whole
Resvc(seq) == [i \in DOMAIN seq |-> [seq[i] EXCEPT !.svc = {"s22"}]]
P2 ==
  \E a \in InjSeqs(GBodies("g0", "g1"), 2), b \in InjSeqs(GBodies("g0", "g1"), 2), da, db, ta, tb \in Members, rs \in BOOLEAN :
    /\ dev = Cfg(Named(a, DevNames), [n \in Used(a, {"g0", "g1"}) |-> IF n = "g0" THEN da ELSE db], NoFn, AddrVal, SvcVal)
    /\ tgt = Cfg(Named(IF rs THEN Resvc(b) ELSE b, TgtNames), [n \in Used(b, {"g0", "g1"}) |-> IF n = "g0" THEN ta ELSE tb], NoFn, AddrVal, SvcVal)

(* P5: the vsys holds g0 AND g0-1 (left by an earlier approve that had to rename a clashing group); the target *)
(* again has g0 / g1 with any contents: a further rename must not pick a name that is in use                 *)
P5 ==
  \E a \in InjSeqs(GBodies("g0", "g0-1"), 2), b \in InjSeqs(GBodies("g0", "g1"), 2), da, db, ta, tb \in Members :
    /\ Used(a, {"g0", "g0-1"}) = {"g0", "g0-1"}
    /\ dev = Cfg(Named(a, DevNames), [n \in Used(a, {"g0", "g0-1"}) |-> IF n = "g0" THEN da ELSE db], NoFn, AddrVal, SvcVal)
    /\ tgt = Cfg(Named(b, TgtNames), [n \in Used(b, {"g0", "g1"}) |-> IF n = "g0" THEN ta ELSE tb], NoFn, AddrVal, SvcVal)

(* P4: ties (C16): the vsys holds two or three identical address-groups that no rule uses; the target *)
(* adds or rewrites rules whose groups may have exactly these members                                 *)
Spare(ns, ms) == [n \in (IF ns = 2 THEN {"ga", "gb"} ELSE {"ga", "gb", "gc"}) |-> ms]
P4 ==
  \E a \in InjSeqs(GBodies("g0", "g1"), 1), b \in InjSeqs(GBodies("g0", "g1"), 2), da, ta, tb, sp \in Members, ns \in {2, 3} :
    /\ b # <<>>
    /\ dev = Cfg(Named(a, DevNames), [n \in Used(a, {"g0", "g1"}) |-> da] @@ Spare(ns, sp), NoFn, AddrVal, SvcVal)
    /\ tgt = Cfg(Named(b, TgtNames), [n \in Used(b, {"g0", "g1"}) |-> IF n = "g0" THEN ta ELSE tb], NoFn, AddrVal, SvcVal)

(* P3: objects with equal names and different values (edit), service-groups, unknown attribute *)
SBodies == {Rule("", "allow", {"a1"}, {"a3"}, {"sg1"}, ""), Rule("", "allow", {"a2"}, {"a3"}, {"s80"}, "x"),
            Rule("", "allow", {"a2"}, {"a3"}, {"s80"}, "")}
SMembers == {{"s80"}, {"s80", "s53"}, {"s53", "s22"}}
AddrVal2 == [AddrVal EXCEPT !["a1"] = "10.9.9.1/32"]
SvcVal2  == [SvcVal EXCEPT !["s80"] = "tcp/8080"]
\* the device's service restricts the source port (element nested in <tcp>): same name, same port, other traffic
SvcVal3  == [SvcVal EXCEPT !["s80"] = "tcp/80/sp"]
UsedS(rs) == {n \in {"sg1"} : \E i \in DOMAIN rs : n \in rs[i].svc}
P3 ==
  \E a \in InjSeqs(SBodies, 2), b \in InjSeqs(SBodies, 2), sa, sb \in SMembers, av \in {AddrVal, AddrVal2}, sv \in {SvcVal, SvcVal2, SvcVal3} :
    /\ dev = Cfg(Named(a, DevNames), NoFn, [n \in UsedS(a) |-> sa], av, sv)
    /\ tgt = Cfg(Named(b, TgtNames), NoFn, [n \in UsedS(b) |-> sb], AddrVal, SvcVal)

(* P8: two vsys.  vsys2 holds objects of the same names with other values (a1, s80); the target either *)
(* addresses both vsys or only vsys1 (then vsys2 must stay as it is)                                   *)
P8 ==
  \E a1, b1 \in InjSeqs(Bodies, 2), a2, b2 \in InjSeqs(Bodies, 1), both \in BOOLEAN, same \in BOOLEAN :
    LET av2 == IF same THEN AddrVal ELSE AddrVal2
        sv2 == IF same THEN SvcVal ELSE SvcVal2
    IN /\ (~both => b2 = <<>>)
       /\ dev = Cfg(Named(a1, DevNames), NoFn, NoFn, AddrVal, SvcVal) @@ [v2 |-> Cfg(Named(a2, DevNames), NoFn, NoFn, av2, sv2)]
       /\ tgt = IF both THEN Cfg(Named(b1, TgtNames), NoFn, NoFn, AddrVal, SvcVal) @@ [v2 |-> Cfg(Named(b2, TgtNames), NoFn, NoFn, av2, sv2)]
                ELSE Cfg(Named(b1, TgtNames), NoFn, NoFn, AddrVal, SvcVal)

(* P9: rules that differ in ONE attribute only (to / from zone, log-start, log-end, log-setting, rule-type, *)
(* application, an element the tool does not know, action): every attribute takes part in the comparison  *)
VBase == Rule("", "allow", {"a1"}, {"a3"}, {"s80"}, "")
VBodies == {[VBase EXCEPT !.extra = o] : o \in {"", "x", "z3", "f3", "le", "ls", "lset", "rt", "app"}} \cup {[VBase EXCEPT !.action = "deny"]}
P9 ==
  \E a, b \in InjSeqs(VBodies, 2) :
    /\ dev = Cfg(Named(a, DevNames), NoFn, NoFn, AddrVal, SvcVal)
    /\ tgt = Cfg(Named(b, TgtNames), NoFn, NoFn, AddrVal, SvcVal)

(* P7: the device holds a second vsys that Netspoc does not target (C07) *)
P7 ==
  \E a, b \in InjSeqs(Bodies, 2) :
    /\ dev = Cfg(Named(a, DevNames), NoFn, NoFn, AddrVal, SvcVal) @@ [vsys2 |-> TRUE]
    /\ tgt = Cfg(Named(b, TgtNames), NoFn, NoFn, AddrVal, SvcVal)

(* M1: merge of the Netspoc IPv4 rulebase with the IPv6 rulebase and raw rules (prepended, or *)
(* appended when they carry <APPEND/>) on an empty vsys (C18)                                *)
SeqsUpTo(S, n) == InjSeqs(S, n)
V4Pool  == {Rule("r1", "allow", {"a1"}, {"a3"}, {"s80"}, ""), Rule("r2", "allow", {"a2"}, {"any"}, {"s53"}, ""),
            Rule("r3", "deny", {"any"}, {"any"}, {"any"}, "")}
V6Pool  == {Rule("v6r1", "allow", {"a6"}, {"any"}, {"s80"}, ""), Rule("v6r2", "deny", {"any"}, {"a6"}, {"any"}, "")}
\* rawE uses a service-group that only the raw file defines
PrePool == {Rule("rawA", "allow", {"any"}, {"a3"}, {"s22"}, ""), Rule("rawB", "deny", {"a9"}, {"any"}, {"any"}, ""),
            Rule("rawE", "allow", {"any"}, {"any"}, {"sgR"}, "")}
AppPool == {Rule("rawC", "deny", {"any"}, {"any"}, {"s22"}, ""), Rule("rawD", "allow", {"a9"}, {"any"}, {"any"}, "")}
AddrValM == AddrVal @@ [a6 |-> "2001:db8:1::1/128", a9 |-> "10.9.9.9/32"]
M1 ==
  \E v4 \in InjSeqs(V4Pool, MaxLen), v6 \in SeqsUpTo(V6Pool, 2), pre \in SeqsUpTo(PrePool, 2), app \in SeqsUpTo(AppPool, 2) :
    /\ v4 # <<>>
    /\ dev = Cfg(<<>>, NoFn, NoFn, AddrValM, SvcVal)
    /\ tgt = Cfg(v4, NoFn, NoFn, AddrValM, SvcVal) @@
             [parts |-> [v4 |-> v4, v6 |-> v6, pre |-> pre, app |-> app,
                         c6 |-> Cfg(v6, NoFn, NoFn, AddrValM, SvcVal),
                         craw |-> Cfg(pre \o app, NoFn,
                                      IF \E i \in DOMAIN pre : pre[i].name = "rawE" THEN [n \in {"sgR"} |-> {"s22"}] ELSE NoFn,
                                      AddrValM, SvcVal)]]

(* M2: the same merge on a vsys that already holds rules (bodies of all parts under device names): *)
(* the incremental commands must arrive at the effective target raw, Netspoc, APPEND               *)
M2 ==
  \E a \in InjSeqs({[r EXCEPT !.name = ""] : r \in V4Pool \cup (PrePool \ {Rule("rawE", "allow", {"any"}, {"any"}, {"sgR"}, "")}) \cup AppPool}, 2),
     v4 \in InjSeqs(V4Pool, 2), pre \in SeqsUpTo(PrePool \ {Rule("rawE", "allow", {"any"}, {"any"}, {"sgR"}, "")}, 1), app \in SeqsUpTo(AppPool, 1) :
    /\ v4 # <<>> /\ (pre # <<>> \/ app # <<>>)
    /\ dev = Cfg(Named(a, <<"d1", "d2">>), NoFn, NoFn, AddrValM, SvcVal)
    /\ tgt = Cfg(v4, NoFn, NoFn, AddrValM, SvcVal) @@
             [parts |-> [v4 |-> v4, v6 |-> <<>>, pre |-> pre, app |-> app,
                         c6 |-> Cfg(<<>>, NoFn, NoFn, AddrValM, SvcVal), craw |-> Cfg(pre \o app, NoFn, NoFn, AddrValM, SvcVal),
                         merged |-> Cfg(pre \o v4 \o app, NoFn, NoFn, AddrValM, SvcVal)]]

(* M3: the merge with TWO vsys: the raw file has rules for vsys1 (prepended / <APPEND/>) and for vsys2 (prepended); *)
(* every vsys is merged with the raw rules of that vsys only                                                       *)
PreNoE == PrePool \ {Rule("rawE", "allow", {"any"}, {"any"}, {"sgR"}, "")}
Pre2Pool == {Rule("rawB2", "deny", {"a9"}, {"any"}, {"any"}, "")}
M3 ==
  \E v4a \in InjSeqs(V4Pool, 2), v4b \in InjSeqs(V4Pool, 1), prea \in SeqsUpTo(PreNoE, 1), appa \in SeqsUpTo(AppPool, 1),
     preb \in SeqsUpTo(Pre2Pool, 1) :
    /\ v4a # <<>> /\ v4b # <<>> /\ (prea # <<>> \/ appa # <<>> \/ preb # <<>>)
    /\ dev = Cfg(<<>>, NoFn, NoFn, AddrValM, SvcVal) @@ [v2 |-> Cfg(<<>>, NoFn, NoFn, AddrValM, SvcVal)]
    /\ tgt = Cfg(v4a, NoFn, NoFn, AddrValM, SvcVal) @@ [v2 |-> Cfg(v4b, NoFn, NoFn, AddrValM, SvcVal)] @@
             [parts |-> [v4 |-> v4a, v6 |-> <<>>, pre |-> prea, app |-> appa,
                         c6 |-> Cfg(<<>>, NoFn, NoFn, AddrValM, SvcVal),
                         craw |-> Cfg(prea \o appa, NoFn, NoFn, AddrValM, SvcVal) @@ [v2 |-> Cfg(preb, NoFn, NoFn, AddrValM, SvcVal)],
                         merged |-> Cfg(prea \o v4a \o appa, NoFn, NoFn, AddrValM, SvcVal) @@
                                    [v2 |-> Cfg(preb \o v4b, NoFn, NoFn, AddrValM, SvcVal)]]]

Init == CASE Fam = "P5" -> P5 [] Fam = "M3" -> M3 [] Fam = "P9" -> P9 [] Fam = "P8" -> P8 [] Fam = "P4" -> P4 [] Fam = "M2" -> M2 [] Fam = "M1" -> M1 [] Fam = "P7" -> P7 [] Fam = "P1" -> P1 [] Fam = "P2" -> P2 [] Fam = "P3" -> P3
Next == UNCHANGED <<dev, tgt>>
HasTie == \E g, h \in DOMAIN dev.groups : g # h /\ dev.groups[g] = dev.groups[h]
Out == PrintT(<<"VOUT", ToJson([fam |-> Fam, dev |-> dev, tgt |-> tgt, tie |-> HasTie])>>)
=============================================================================
