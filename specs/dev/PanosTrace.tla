----------------------------- MODULE PanosTrace -----------------------------
(* Trace validation for the PAN-OS family (C03, C07, C08, C10, C16).        *)
EXTENDS Panos, Merge, Json, IOUtils, SequencesExt

VARIABLES l, i0, errl, nchg, foreign,
          cur,      \* the vsys whose candidate configuration is loaded in the variables of Panos.tla
          other     \* the candidate configuration of the other vsys (vsys2 / vsys1)
tvars == <<l, i0, errl, nchg, foreign, cur, other>>
Trace  == ndJsonDeserialize(IOEnv.TRACE)
Ev     == Trace[l + 1]
LastEv == Trace[l]
I0     == Trace[i0]
D0     == I0.dev
\* merge cases on a non-empty vsys carry the expected effective target (parts.merged)
HasMerged == "parts" \in DOMAIN I0.tgt /\ "merged" \in DOMAIN I0.tgt.parts
T      == IF HasMerged THEN I0.tgt.parts.merged ELSE I0.tgt
Targeted == {"vsys1"} \cup (IF "v2" \in DOMAIN I0.tgt THEN {"vsys2"} ELSE {})

RuleOf(j) == [name |-> j.name, action |-> j.action, src |-> ToSet(j.src), dst |-> ToSet(j.dst),
              svc |-> ToSet(j.svc), extra |-> j.extra]
RulesOf(j) == [i \in DOMAIN j.rules |-> RuleOf(j.rules[i])]
AddrOf(j)  == [n \in DOMAIN j.addrs |-> j.addrs[n]]
GrpOf(j)   == [n \in DOMAIN j.groups |-> ToSet(j.groups[n])]
SvcOf(j)   == [n \in DOMAIN j.svcs |-> j.svcs[n]]
SGrpOf(j)  == [n \in DOMAIN j.sgroups |-> ToSet(j.sgroups[n])]

\* a second vsys is optional in the JSON of a configuration
StOf(j) == [rules |-> RulesOf(j), addr |-> AddrOf(j), grp |-> GrpOf(j), svc |-> SvcOf(j), sgrp |-> SGrpOf(j)]
EmptySt == [rules |-> <<>>, addr |-> <<>>, grp |-> <<>>, svc |-> <<>>, sgrp |-> <<>>]
St == [rules |-> rules, addr |-> addr, grp |-> grp, svc |-> svc, sgrp |-> sgrp]
OtherOf(j) == IF "v2" \in DOMAIN j THEN StOf(j.v2) ELSE EmptySt
Load(s) == rules' = s.rules /\ addr' = s.addr /\ grp' = s.grp /\ svc' = s.svc /\ sgrp' = s.sgrp
\* the script turns to the other vsys (or, at a resume, back to vsys1)
Swap(v) == IF v = cur THEN UNCHANGED <<rules, addr, grp, svc, sgrp, other, cur>>
           ELSE Load(other) /\ other' = St /\ cur' = v

TInit == /\ l = 1 /\ i0 = 1 /\ errl = 0 /\ nchg = 0 /\ foreign = "" /\ Trace[1].ev = "Init"
         /\ cur = "vsys1" /\ other = OtherOf(Trace[1].dev)
         /\ rules = RulesOf(Trace[1].dev) /\ addr = AddrOf(Trace[1].dev) /\ grp = GrpOf(Trace[1].dev)
         /\ svc = SvcOf(Trace[1].dev) /\ sgrp = SGrpOf(Trace[1].dev) /\ err = ""

IsChange(e) == e.ev \notin {"Init", "Resume", "Done", "Switch"}
Dispatch(e) ==
  CASE e.ev = "SetRule"        -> SetRule(RuleOf(e.rule))
    [] e.ev = "SetRuleList"    -> SetRuleList(e.name, e.f, ToSet(e.members))
    [] e.ev = "EditRuleList"   -> EditRuleList(e.name, e.f, ToSet(e.members))
    [] e.ev = "DelRuleMember"  -> DelRuleMember(e.name, e.f, e.member)
    [] e.ev = "DelRule"        -> DelRule(e.name)
    [] e.ev = "MoveRule"       -> MoveRule(e.name, e.dst)
    [] e.ev = "SetAddr"        -> SetAddr(e.name, e.value)
    [] e.ev = "EditAddr"       -> EditAddr(e.name, e.value)
    [] e.ev = "SetSvc"         -> SetSvc(e.name, e.value)
    [] e.ev = "EditSvc"        -> EditSvc(e.name, e.value)
    [] e.ev = "SetGroup"       -> SetGroup(e.name, ToSet(e.members))
    [] e.ev = "DelGroupMember" -> DelGroupMember(e.name, e.member)
    [] e.ev = "SetSGroup"      -> SetSGroup(e.name, ToSet(e.members))
    [] e.ev = "DelObj"         -> DelObj(e.kind, e.name)
    [] e.ev = "Resume"         -> UNCHANGED err
    [] e.ev = "Switch"         -> UNCHANGED err
    [] e.ev = "Done"           -> UNCHANGED dvars

TNext ==
  /\ l < Len(Trace)
  /\ l' = l + 1
  /\ IF Ev.ev = "Init"
     THEN /\ rules' = RulesOf(Ev.dev) /\ addr' = AddrOf(Ev.dev) /\ grp' = GrpOf(Ev.dev)
          /\ svc' = SvcOf(Ev.dev) /\ sgrp' = SGrpOf(Ev.dev) /\ err' = ""
          /\ i0' = l + 1 /\ errl' = 0 /\ nchg' = 0 /\ foreign' = ""
          /\ cur' = "vsys1" /\ other' = OtherOf(Ev.dev)
     ELSE /\ Dispatch(Ev)
          /\ CASE Ev.ev = "Switch" -> Swap(Ev.vsys)
               [] Ev.ev = "Resume" -> Swap("vsys1")
               [] OTHER -> UNCHANGED <<cur, other>>
          /\ i0' = i0
          /\ errl' = IF err = "" /\ err' # "" THEN l + 1 ELSE errl
          /\ nchg' = IF IsChange(Ev) THEN nchg + 1 ELSE nchg
          \* C07: every command must address the targeted vsys
          /\ foreign' = IF IsChange(Ev) /\ foreign = "" /\ Ev.vsys \notin Targeted THEN Ev.vsys ELSE foreign
TSpec == TInit /\ [][TNext]_<<dvars, tvars>>

-----------------------------------------------------------------------------
(* Equivalence (C03): same rules in the same order, objects compared by expanded content *)
ExpAddr(m, a, g) == IF m \in DOMAIN g THEN {IF x \in DOMAIN a THEN a[x] ELSE "?" \o x : x \in g[m]}
                    ELSE IF m \in DOMAIN a THEN {a[m]} ELSE {m}
ExpAddrs(ms, a, g) == UNION {ExpAddr(m, a, g) : m \in ms}
ExpSvc(m, s, sg) == IF m \in DOMAIN sg THEN {IF x \in DOMAIN s THEN s[x] ELSE "?" \o x : x \in sg[m]}
                    ELSE IF m \in DOMAIN s THEN {s[m]} ELSE {m}
ExpSvcs(ms, s, sg) == UNION {ExpSvc(m, s, sg) : m \in ms}
ExpRule(r, a, g, s, sg) == [action |-> r.action, src |-> ExpAddrs(r.src, a, g), dst |-> ExpAddrs(r.dst, a, g),
                            svc |-> ExpSvcs(r.svc, s, sg), extra |-> r.extra]
ExpRules(rs, a, g, s, sg) == [i \in DOMAIN rs |-> ExpRule(rs[i], a, g, s, sg)]

S1 == IF cur = "vsys1" THEN St ELSE other          \* candidate configuration of vsys1 / vsys2
S2 == IF cur = "vsys1" THEN other ELSE St
EquivSt(s, j) == ExpRules(s.rules, s.addr, s.grp, s.svc, s.sgrp)
                 = ExpRules(RulesOf(j), AddrOf(j), GrpOf(j), SvcOf(j), SGrpOf(j))
Equivalent == /\ EquivSt(S1, T)
              /\ ("v2" \in DOMAIN T => EquivSt(S2, T.v2))
\* a vsys the target does not mention is left exactly as it was (C07)
OtherUntouched == "v2" \in DOMAIN T \/ S2 = OtherOf(D0)

\* C18: the rulebase the script built on the empty vsys is the effective (merged) target
IsMerge == "parts" \in DOMAIN I0.tgt
ToM(q) == [i \in DOMAIN q |-> [act |-> q[i].action, r |-> q[i]]]
PartOf(q) == ToM([i \in DOMAIN q |-> RuleOf(q[i])])
MergeOK == Admissible(ToM(rules), PartOf(I0.tgt.parts.v4), PartOf(I0.tgt.parts.v6), PartOf(I0.tgt.parts.pre), PartOf(I0.tgt.parts.app))
MergeWhy == Why(ToM(rules), PartOf(I0.tgt.parts.v4), PartOf(I0.tgt.parts.v6), PartOf(I0.tgt.parts.pre), PartOf(I0.tgt.parts.app))
\* known finding: PAN-OS appends <APPEND/> rules behind the whole Netspoc rulebase, i.e. also behind its trailing deny rules
KF_AppendBehindDeny ==
  /\ Complete(ToM(rules), {PartOf(I0.tgt.parts.v4), PartOf(I0.tgt.parts.v6), PartOf(I0.tgt.parts.pre), PartOf(I0.tgt.parts.app)})
  /\ \A r \in Rng(PartOf(I0.tgt.parts.pre)), n \in Rng(PartOf(I0.tgt.parts.v4)) \cup Rng(PartOf(I0.tgt.parts.v6)) : Pos(ToM(rules), r) < Pos(ToM(rules), n)
  /\ \A a \in Rng(PartOf(I0.tgt.parts.app)), n \in Rng(PartOf(I0.tgt.parts.v4)) \cup Rng(PartOf(I0.tgt.parts.v6)) : Pos(ToM(rules), n) < Pos(ToM(rules), a)

Post(j) == S1 = StOf(j) /\ ("v2" \in DOMAIN j => S2 = StOf(j.v2))
Chk(ok, tag, detail, kf) == ok \/ PrintT(<<"VERR", LastEv.t, l, tag, detail, kf>>)

\* Known finding 11: `set` on the member list of an existing service-group adds members, the
\* members to be dropped stay and the delete of the still referenced service is refused
KF_SGroupShrink ==
  \E n \in (DOMAIN SGrpOf(D0)) \cap (DOMAIN SGrpOf(T)) : ~(SGrpOf(D0)[n] \subseteq SGrpOf(T)[n])
\* Known finding 13: a rule is switched to a renamed target group that a later rule maps onto a device group
\* (the name clash: a target group whose name the device uses for a group with OTHER members, next to a second device group)
KF_GroupNeverCreated == err = "rule references unknown address or address-group"
                        /\ \E n \in (DOMAIN GrpOf(T)) \cap (DOMAIN GrpOf(D0)) : GrpOf(T)[n] # GrpOf(D0)[n]
                        /\ Cardinality(DOMAIN GrpOf(D0)) >= 2

KFKey == IF KF_SGroupShrink THEN "PanosServiceGroupShrink" ELSE IF KF_GroupNeverCreated THEN "PanosGroupNeverCreated" ELSE ""

Mon ==
  /\ Chk(~(err # "" /\ errl = l), "C08", err, KFKey)
  /\ Chk(foreign = "" \/ LastEv.ev = "Init", "C07", "command addresses a vsys outside the target: " \o foreign, "")
  /\ Chk(LastEv.ev = "Init" \/ OtherUntouched, "C07", "a vsys outside the target was changed", "")
  /\ Chk(LastEv.ev \in {"Resume", "Done"} => Post(LastEv.post), "HARNESS", "post state of replica differs", "")
  /\ Chk(LastEv.ev = "Done" /\ HasMerged => Equivalent, "C18", "rulebase is not raw, Netspoc, APPEND", "")
  /\ Chk(LastEv.ev = "Done" /\ IsMerge /\ ~HasMerged => MergeOK, "C18", IF IsMerge THEN MergeWhy ELSE "",
         IF IsMerge /\ KF_AppendBehindDeny THEN "PanosAppendBehindDeny" ELSE "")
  /\ Chk(LastEv.ev = "Done" /\ ~IsMerge => Equivalent, "EQUIV", IF nchg = 0 THEN "unchanged" ELSE "final", KFKey)
  /\ Chk(LastEv.ev = "Done" => LastEv.n2 = 0, "FIXPOINT", "second compare reports changes", KFKey)
Accepted == TLCGet("stats").diameter = Len(Trace)
=============================================================================
