------------------------------ MODULE NsxTrace ------------------------------
(* Trace validation for the NSX family (C04, C07, C08, C10, C16).           *)
EXTENDS Nsx, Json, IOUtils, SequencesExt

VARIABLES l, i0, errl, nchg, foreign
tvars == <<l, i0, errl, nchg, foreign>>
Trace  == ndJsonDeserialize(IOEnv.TRACE)
Ev     == Trace[l + 1]
LastEv == Trace[l]
I0     == Trace[i0]
D0     == I0.dev
\* merge cases (C18) carry the expected effective target
IsMerge == "parts" \in DOMAIN I0.tgt
T      == IF IsMerge THEN I0.tgt.parts.merged ELSE I0.tgt

RuleOf(j) == [seq |-> j.seq, action |-> j.action, dir |-> j.dir, src |-> j.src, dst |-> j.dst, svc |-> j.svc, opt |-> j.opt]
RulesOf(jp) == [i \in DOMAIN jp |-> RuleOf(jp[i])]
PolOf(j) == [p \in DOMAIN j.policies |-> RulesOf(j.policies[p])]
GrpOf(j) == [n \in DOMAIN j.groups |-> ToSet(j.groups[n])]
SvcOf(j) == [n \in DOMAIN j.services |-> j.services[n]]
\* the id of a group's expression is optional in the JSON ("id" is what Netspoc writes)
XidOf(j) == [n \in DOMAIN j.groups |-> IF "xids" \in DOMAIN j /\ n \in DOMAIN j.xids THEN j.xids[n] ELSE "id"]

TInit == /\ l = 1 /\ i0 = 1 /\ errl = 0 /\ nchg = 0 /\ foreign = "" /\ Trace[1].ev = "Init"
         /\ pol = PolOf(Trace[1].dev) /\ grp = GrpOf(Trace[1].dev) /\ svc = SvcOf(Trace[1].dev) /\ err = ""
         /\ xid = XidOf(Trace[1].dev)
IsChange(e) == e.ev \notin {"Init", "Resume", "Done"}
Dispatch(e) ==
  CASE e.ev = "PutService"    -> PutService(e.id, e.value)
    [] e.ev = "PatchService"  -> PatchService(e.id, e.value)
    [] e.ev = "DeleteService" -> DeleteService(e.id)
    [] e.ev = "PutGroup"      -> PutGroup(e.id, ToSet(e.members), e.x)
    [] e.ev = "GroupAdd"      -> GroupAdd(e.id, ToSet(e.members), e.x)
    [] e.ev = "GroupRemove"   -> GroupRemove(e.id, ToSet(e.members), e.x)
    [] e.ev = "PatchExpr"     -> PatchExpr(e.id, ToSet(e.members), e.x)
    [] e.ev = "DeleteGroup"   -> DeleteGroup(e.id)
    [] e.ev = "PutPolicy"     -> PutPolicy(e.id, RulesOf(e.rules))
    [] e.ev = "DeletePolicy"  -> DeletePolicy(e.id)
    [] e.ev = "PutRule"       -> PutRule(e.pol, e.id, RuleOf(e.rule))
    [] e.ev = "PatchRule"     -> PatchRule(e.pol, e.id, RuleOf(e.rule))
    [] e.ev = "DeleteRule"    -> DeleteRule(e.pol, e.id)
    [] e.ev = "Resume"        -> Resume
    [] e.ev = "Done"          -> UNCHANGED dvars
TNext ==
  /\ l < Len(Trace)
  /\ l' = l + 1
  /\ IF Ev.ev = "Init"
     THEN /\ pol' = PolOf(Ev.dev) /\ grp' = GrpOf(Ev.dev) /\ svc' = SvcOf(Ev.dev) /\ err' = ""
          /\ xid' = XidOf(Ev.dev)
          /\ i0' = l + 1 /\ errl' = 0 /\ nchg' = 0 /\ foreign' = ""
     ELSE /\ Dispatch(Ev)
          /\ i0' = i0
          /\ errl' = IF err = "" /\ err' # "" THEN l + 1 ELSE errl
          /\ nchg' = IF IsChange(Ev) THEN nchg + 1 ELSE nchg
          \* C07: only objects whose id carries the Netspoc prefix may be addressed
          /\ foreign' = IF IsChange(Ev) /\ foreign = "" /\ ~Ev.netspoc THEN Ev.obj ELSE foreign
TSpec == TInit /\ [][TNext]_<<dvars, tvars>>

-----------------------------------------------------------------------------
(* Equivalence (C04) *)
ExpT(t, g) == IF \E n \in DOMAIN g : t = GrpRef(n) THEN [k |-> "set", v |-> g[CHOOSE n \in DOMAIN g : t = GrpRef(n)]]
              ELSE [k |-> "lit", v |-> {t}]
ExpS(t, s) == IF \E n \in DOMAIN s : t = SvcRef(n) THEN s[CHOOSE n \in DOMAIN s : t = SvcRef(n)] ELSE t
ExpR(r, g, s) == [seq |-> r.seq, action |-> r.action, dir |-> r.dir, src |-> ExpT(r.src, g), dst |-> ExpT(r.dst, g),
                  svc |-> ExpS(r.svc, s), opt |-> r.opt]
\* multiset of expanded rules of a policy, as a function expanded rule -> count
Bag(rs, g, s) == LET E == {ExpR(rs[i], g, s) : i \in DOMAIN rs}
                 IN [e \in E |-> Cardinality({i \in DOMAIN rs : ExpR(rs[i], g, s) = e})]
TPol == PolOf(T)  TGrp == GrpOf(T)  TSvc == SvcOf(T)
Equivalent ==
  /\ DOMAIN pol = DOMAIN TPol
  /\ \A p \in DOMAIN TPol : Bag(pol[p], grp, svc) = Bag(TPol[p], TGrp, TSvc)
  /\ DOMAIN svc = DOMAIN TSvc                          \* no left-over Netspoc service
  /\ \A n \in DOMAIN grp : GrpUsed(n)                  \* no left-over Netspoc group

\* Known finding 14: rules are sorted with a key that looks only at the first address of a group and
\* the sort is not stable: two rules of one policy that differ only in their groups may be paired by
\* position, an equivalent manager is reported as changed
IsG(t) == \E c \in {"g:Netspoc-g0", "g:Netspoc-g1", "g:Netspoc-g2", "g:Netspoc-g0-1", "g:Netspoc-g1-1"} : t = c
TwinIn(rs) == \E i, j \in DOMAIN rs : i # j /\ rs[i].seq = rs[j].seq /\ rs[i].action = rs[j].action /\ rs[i].dir = rs[j].dir
                 /\ rs[i].svc = rs[j].svc
                 /\ ((IsG(rs[i].src) /\ IsG(rs[j].src) /\ rs[i].dst = rs[j].dst) \/ (IsG(rs[i].dst) /\ IsG(rs[j].dst) /\ rs[i].src = rs[j].src))
KF_TwinRules == (\E p \in DOMAIN PolOf(D0) : TwinIn(PolOf(D0)[p])) \/ (\E p \in DOMAIN TPol : TwinIn(TPol[p]))
KFKey == IF KF_TwinRules THEN "NsxTwinRules" ELSE ""

Post(j) == pol = PolOf(j) /\ grp = GrpOf(j) /\ svc = SvcOf(j) /\ xid = XidOf(j)
Chk(ok, tag, detail, kf) == ok \/ PrintT(<<"VERR", LastEv.t, l, tag, detail, kf>>)
Mon ==
  /\ Chk(~(err # "" /\ errl = l), "C08", err, "")
  /\ Chk(foreign = "" \/ LastEv.ev = "Init", "C07", "request addresses an object without the Netspoc prefix: " \o foreign, "")
  /\ Chk(LastEv.ev \in {"Resume", "Done"} => Post(LastEv.post), "HARNESS", "post state of replica differs", "")
  /\ Chk(LastEv.ev = "Done" /\ IsMerge => Equivalent, "C18", "policies are not the union of the Netspoc and the raw rules", "")
  /\ Chk(LastEv.ev = "Done" /\ ~IsMerge => Equivalent, "EQUIV", IF nchg = 0 THEN "unchanged" ELSE "final", KFKey)
  /\ Chk(LastEv.ev = "Done" => LastEv.n2 = 0, "FIXPOINT", "second compare reports changes", KFKey)
Accepted == TLCGet("stats").diameter = Len(Trace)
=============================================================================
