------------------------------- MODULE NsxGen -------------------------------
(* Input universes for the NSX family. *)
EXTENDS Integers, Sequences, FiniteSets, TLC, Json

CONSTANTS Fam, MaxLen
VARIABLES dev, tgt

\* opt: one further attribute of the rule ("" = none): logged, tag, disabled, destinations / sources excluded,
\* ip_protocol IPV6, a context profile, another scope
R(seq, act, dir, s, d, v) == [seq |-> seq, action |-> act, dir |-> dir, src |-> s, dst |-> d, svc |-> v, opt |-> ""]
Addrs == {"10.1.1.10", "10.1.1.20", "10.1.2.30", "10.1.2.40"}
GSets == {{"10.1.1.10"}, {"10.1.1.10", "10.1.1.20"}, {"10.1.1.10", "10.1.2.30", "10.1.2.40"}, {"10.1.1.20", "10.1.2.40"}}
G(n) == "g:Netspoc-" \o n
\* rule bodies: equal sequence numbers, groups and literals
Bodies(g, h) == {R(20, "ALLOW", "OUT", G(g), "10.1.2.30", "s:Netspoc-tcp_80"),
                 R(20, "ALLOW", "OUT", G(h), "10.1.2.40", "s:Netspoc-tcp_80"),
                 R(20, "ALLOW", "OUT", "10.1.1.10", G(g), "s:Netspoc-udp_53"),
                 R(30, "DROP", "OUT", "ANY", "ANY", "ANY")}
SubsetsUpTo(S, n) == {x \in SUBSET S : Cardinality(x) <= n /\ x # {}}
Ids == <<"r1", "r2", "r3", "r4">>
\* a rule set becomes a map id -> rule (ids assigned in a fixed order of the bodies)
Numbered(S) == LET seq == CHOOSE s \in [1..Cardinality(S) -> S] : \A i, j \in DOMAIN s : i # j => s[i] # s[j]
               IN [k \in {Ids[i] : i \in 1..Cardinality(S)} |-> seq[CHOOSE i \in 1..Cardinality(S) : Ids[i] = k]]
UsedG(S, names) == {n \in names : \E r \in S : G(n) \in {r.src, r.dst}}
UsedS(S) == {r.svc : r \in {x \in S : x.svc # "ANY"}}
SvcDef == [tcp80 |-> "TCP/80", udp53 |-> "UDP/53"]
SvcMap(S, alt) == [n \in {"Netspoc-tcp_80", "Netspoc-udp_53"} \cap {IF r.svc = "s:Netspoc-tcp_80" THEN "Netspoc-tcp_80" ELSE "Netspoc-udp_53" : r \in {x \in S : x.svc # "ANY"}}
                   |-> IF n = "Netspoc-tcp_80" THEN (IF alt THEN "TCP/8080" ELSE "TCP/80") ELSE "UDP/53"]
Cfg(S, gm, alt) == [policies |-> [p \in {"Netspoc-v1"} |-> Numbered(S)], groups |-> gm, services |-> SvcMap(S, alt)]
NoFn == [x \in {} |-> {}]

\* the expression of a group on the manager may carry another id than Netspoc's "id" (created by hand / from raw)
WithX(c, x) == IF x = "id" THEN c ELSE c @@ [xids |-> [n \in DOMAIN c.groups |-> x]]
(* N1: one policy, rules sharing sequence numbers, groups renamed / shared / split *)
N1 ==
  \E A \in SubsetsUpTo(Bodies("g0", "g1"), MaxLen), B \in SubsetsUpTo(Bodies("g0", "g1"), MaxLen),
     da, db, ta, tb \in GSets, xd \in {"id", "members"} :
    /\ (UsedG(A, {"g0", "g1"}) = {} => xd = "id")
    /\ dev = WithX(Cfg(A, [n \in {"Netspoc-" \o x : x \in UsedG(A, {"g0", "g1"})} |-> IF n = "Netspoc-g0" THEN da ELSE db], FALSE), xd)
    /\ tgt = Cfg(B, [n \in {"Netspoc-" \o x : x \in UsedG(B, {"g0", "g1"})} |-> IF n = "Netspoc-g0" THEN ta ELSE tb], FALSE)

(* N2: services changed in place, left-over groups / services, policy only on one side *)
N2 ==
  \E A \in SubsetsUpTo(Bodies("g0", "g1"), 2), B \in SubsetsUpTo(Bodies("g0", "g1"), 2), alt, hasA, hasB, left \in BOOLEAN :
    /\ hasA \/ hasB
    /\ LET gm(S) == [n \in {"Netspoc-" \o x : x \in UsedG(S, {"g0", "g1"})} |-> {"10.1.1.10", "10.1.1.20"}]
           d == Cfg(A, IF left THEN gm(A) @@ [n \in {"Netspoc-g2"} |-> {"10.1.2.40"}] ELSE gm(A), alt)
           t == Cfg(B, gm(B), FALSE)
       IN /\ dev = IF hasA THEN d ELSE [d EXCEPT !.policies = NoFn, !.groups = IF left THEN [n \in {"Netspoc-g2"} |-> {"10.1.2.40"}] ELSE NoFn,
                                                  !.services = IF left THEN [n \in {"Netspoc-udp_53"} |-> "UDP/53"] ELSE NoFn]
          /\ tgt = IF hasB THEN t ELSE [t EXCEPT !.policies = NoFn, !.groups = NoFn, !.services = NoFn]

(* N3: two rules that differ only in their groups (equal sequence number, same literal, same service) *)
Twin(g, h) == {R(20, "ALLOW", "OUT", G(g), "10.1.2.30", "s:Netspoc-tcp_80"), R(20, "ALLOW", "OUT", G(h), "10.1.2.30", "s:Netspoc-tcp_80"),
               R(30, "DROP", "OUT", "ANY", "ANY", "ANY")}
N3 ==
  \E A \in SubsetsUpTo(Twin("g0", "g1"), 3), B \in SubsetsUpTo(Twin("g0", "g1"), 3), da, db, ta, tb \in GSets :
    /\ dev = Cfg(A, [n \in {"Netspoc-" \o x : x \in UsedG(A, {"g0", "g1"})} |-> IF n = "Netspoc-g0" THEN da ELSE db], FALSE)
    /\ tgt = Cfg(B, [n \in {"Netspoc-" \o x : x \in UsedG(B, {"g0", "g1"})} |-> IF n = "Netspoc-g0" THEN ta ELSE tb], FALSE)

(* N5: services of the other resource types: ICMP with type 0 / 8 / 8 code 0 / every type, IP protocol 50 / 51; *)
(* same name on both sides, neighbouring definitions                                                           *)
SvcVals == {"ICMP/0", "ICMP/8", "ICMP/8.0", "ICMP/", "IPP/50", "IPP/51", "TCP/80"}
N5 ==
  \E dv \in SvcVals \cup {"none"}, tv \in SvcVals :
    LET rule == [r1 |-> R(20, "ALLOW", "OUT", "ANY", "10.1.2.30", "s:Netspoc-svc")]
    IN /\ dev = IF dv = "none" THEN [policies |-> NoFn, groups |-> NoFn, services |-> NoFn]
                ELSE [policies |-> [p \in {"Netspoc-v1"} |-> rule], groups |-> NoFn, services |-> [n \in {"Netspoc-svc"} |-> dv]]
       /\ tgt = [policies |-> [p \in {"Netspoc-v1"} |-> rule], groups |-> NoFn, services |-> [n \in {"Netspoc-svc"} |-> tv]]

(* N6: rules that differ in ONE attribute only (logged, tag, disabled, excluded, ip_protocol, profile, scope, *)
(* direction, sequence number): every attribute takes part in the comparison                                 *)
Opts == {"", "log", "tag", "dis", "dx", "sx", "v6", "prof", "scope2"}
VBase == R(20, "ALLOW", "OUT", "10.1.1.10", "10.1.2.30", "s:Netspoc-tcp_80")
VBodies == {[VBase EXCEPT !.opt = o] : o \in Opts}
           \cup {[VBase EXCEPT !.dir = "IN"], [VBase EXCEPT !.seq = 25], R(30, "DROP", "OUT", "ANY", "ANY", "ANY")}
N6 ==
  \E A \in SubsetsUpTo(VBodies, 2), B \in SubsetsUpTo(VBodies, 2) :
    /\ dev = Cfg(A, NoFn, FALSE)
    /\ tgt = Cfg(B, NoFn, FALSE)

(* N7: in-place edits of one group: the members go from any non-empty set of addresses to any other (several *)
(* addresses added and removed at once, not adjacent in the sorted list); one or two rules use the group      *)
N7 ==
  \E da, ta \in (SUBSET (Addrs \cup {"10.1.2.50"})) \ {{}}, two \in BOOLEAN :
    LET S == {R(20, "ALLOW", "OUT", G("g0"), "10.1.2.30", "s:Netspoc-tcp_80")}
             \cup (IF two THEN {R(20, "ALLOW", "OUT", "10.1.1.10", G("g0"), "s:Netspoc-udp_53")} ELSE {})
    IN /\ dev = Cfg(S, [n \in {"Netspoc-g0"} |-> da], FALSE)
       /\ tgt = Cfg(S, [n \in {"Netspoc-g0"} |-> ta], FALSE)

(* N4: the manager holds Netspoc-g0 and Netspoc-g0-1 (the result of an earlier approve that had to rename a *)
(* clashing group); the target again has g0 / g1 with any contents                                            *)
N4 ==
  \E A \in SubsetsUpTo(Bodies("g0", "g0-1"), MaxLen), B \in SubsetsUpTo(Bodies("g0", "g1"), MaxLen), da, db, ta, tb \in GSets :
    /\ dev = Cfg(A, [n \in {"Netspoc-" \o x : x \in UsedG(A, {"g0", "g0-1"})} |-> IF n = "Netspoc-g0" THEN da ELSE db], FALSE)
    /\ tgt = Cfg(B, [n \in {"Netspoc-" \o x : x \in UsedG(B, {"g0", "g1"})} |-> IF n = "Netspoc-g0" THEN ta ELSE tb], FALSE)

(* M1: merge of the Netspoc policies with a raw file (C18): raw rules join the policy of the same id, *)
(* other raw policies are added; NSX orders rules by sequence number, there is no APPEND             *)
RawV1 == {[id |-> "raw1", r |-> R(10, "ALLOW", "OUT", "10.9.9.9", "ANY", "ANY")],
          [id |-> "raw2", r |-> R(40, "DROP", "OUT", "ANY", "10.9.9.9", "ANY")]}
RawV2 == {[id |-> "raw3", r |-> R(20, "ALLOW", "IN", "10.9.9.8", "ANY", "ANY")]}
FnOf(S) == [k \in {x.id : x \in S} |-> (CHOOSE x \in S : x.id = k).r]
M1 ==
  \E A \in SubsetsUpTo(Bodies("g0", "g1"), MaxLen), r1 \in SUBSET RawV1, r2 \in SUBSET RawV2 :
    /\ r1 \cup r2 # {}
    /\ LET gm == [n \in {"Netspoc-" \o x : x \in UsedG(A, {"g0", "g1"})} |-> {"10.1.1.10", "10.1.1.20"}]
           v4 == Cfg(A, gm, FALSE)
           rawpol == [p \in (IF r1 # {} THEN {"Netspoc-v1"} ELSE {}) \cup (IF r2 # {} THEN {"Netspoc-v2"} ELSE {}) |->
                        IF p = "Netspoc-v1" THEN FnOf(r1) ELSE FnOf(r2)]
           mpol == [p \in {"Netspoc-v1"} \cup DOMAIN rawpol |->
                      IF p = "Netspoc-v1" THEN (IF r1 # {} THEN v4.policies[p] @@ FnOf(r1) ELSE v4.policies[p]) ELSE FnOf(r2)]
       IN /\ dev = [policies |-> NoFn, groups |-> NoFn, services |-> NoFn]
          /\ tgt = v4 @@ [parts |-> [craw |-> [policies |-> rawpol, groups |-> NoFn, services |-> NoFn],
                                     merged |-> [policies |-> mpol, groups |-> gm, services |-> v4.services]]]

(* M2: the same merge on a manager that already holds Netspoc policies (rules of both parts under *)
(* other ids, groups with other members): the incremental requests must arrive at the union       *)
M2 ==
  \E A \in SubsetsUpTo(Bodies("g0", "g1"), 2), D \in SubsetsUpTo(Bodies("g0", "g1") \cup {x.r : x \in RawV1}, 2),
     r1 \in SUBSET RawV1, r2 \in SUBSET RawV2, dg \in {{"10.1.1.10", "10.1.1.20"}, {"10.1.1.10"}}, dv2 \in BOOLEAN :
    /\ r1 \cup r2 # {}
    /\ LET gm == [n \in {"Netspoc-" \o x : x \in UsedG(A, {"g0", "g1"})} |-> {"10.1.1.10", "10.1.1.20"}]
           dgm == [n \in {"Netspoc-" \o x : x \in UsedG(D, {"g0", "g1"})} |-> dg]
           v4 == Cfg(A, gm, FALSE)
           d0 == Cfg(D, dgm, FALSE)
           d  == IF dv2 THEN [d0 EXCEPT !.policies = @ @@ [p \in {"Netspoc-v2"} |-> [k \in {"old1"} |-> R(20, "DROP", "IN", "10.9.9.7", "ANY", "ANY")]]] ELSE d0
           rawpol == [p \in (IF r1 # {} THEN {"Netspoc-v1"} ELSE {}) \cup (IF r2 # {} THEN {"Netspoc-v2"} ELSE {}) |->
                        IF p = "Netspoc-v1" THEN FnOf(r1) ELSE FnOf(r2)]
           mpol == [p \in {"Netspoc-v1"} \cup DOMAIN rawpol |->
                      IF p = "Netspoc-v1" THEN (IF r1 # {} THEN v4.policies[p] @@ FnOf(r1) ELSE v4.policies[p]) ELSE FnOf(r2)]
       IN /\ dev = d
          /\ tgt = v4 @@ [parts |-> [craw |-> [policies |-> rawpol, groups |-> NoFn, services |-> NoFn],
                                     merged |-> [policies |-> mpol, groups |-> gm, services |-> v4.services]]]

Init == CASE Fam = "N7" -> N7 [] Fam = "N6" -> N6 [] Fam = "N5" -> N5 [] Fam = "N4" -> N4 [] Fam = "M2" -> M2 [] Fam = "M1" -> M1 [] Fam = "N3" -> N3 [] Fam = "N1" -> N1 [] Fam = "N2" -> N2
Next == UNCHANGED <<dev, tgt>>
HasTie == \E g, h \in DOMAIN dev.groups : g # h /\ dev.groups[g] = dev.groups[h]
Out == PrintT(<<"VOUT", ToJson([fam |-> Fam, dev |-> dev, tgt |-> tgt, tie |-> HasTie])>>)
=============================================================================
