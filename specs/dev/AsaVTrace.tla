------------------------------ MODULE AsaVTrace ------------------------------
(* Trace validation for the ASA VPN object graph (C01, C07, C08, C10).       *)
EXTENDS AsaV, Json, IOUtils, SequencesExt

VARIABLES l, i0, errl, nchg, touched
tvars == <<l, i0, errl, nchg, touched>>
Trace  == ndJsonDeserialize(IOEnv.TRACE)
Ev     == Trace[l + 1]
LastEv == Trace[l]
I0     == Trace[i0]

LineOf(j) == Line(j.m, j.t, j.r)
ObjOf(j) == [k \in DOMAIN j.objs |-> [kind |-> j.objs[k].kind, name |-> j.objs[k].name,
                                      lines |-> {LineOf(j.objs[k].lines[i]) : i \in DOMAIN j.objs[k].lines}]]
D0 == ObjOf(I0.dev)
\* merge cases (C18) carry the expected effective target
IsMerge == "parts" \in DOMAIN I0.tgt
T  == IF IsMerge THEN ObjOf(I0.tgt.parts.merged) ELSE ObjOf(I0.tgt)

TInit == /\ l = 1 /\ i0 = 1 /\ errl = 0 /\ nchg = 0 /\ touched = {} /\ Trace[1].ev = "Init"
         /\ obj = ObjOf(Trace[1].dev) /\ mode = NoMode /\ err = ""
IsChange(e) == e.ev \notin {"Init", "Resume", "Done"}
Dispatch(e) ==
  CASE e.ev = "TopLine"   -> TopLine(e.k, e.kind, e.name, e.m, e.tx, e.r)
    [] e.ev = "TopNoLine" -> TopNoLine(e.k, e.m, e.tx, e.r)
    [] e.ev = "SubEnter"  -> SubEnter(e.k, e.kind, e.name, e.m)
    [] e.ev = "SubLine"   -> SubLine(e.tx, e.r)
    [] e.ev = "SubNoLine" -> SubNoLine(e.tx, e.r)
    [] e.ev = "Clear"     -> Clear(e.k)
    [] e.ev = "Exit"      -> Exit
    [] e.ev = "Resume"    -> Resume
    [] e.ev = "Done"      -> UNCHANGED dvars
TNext ==
  /\ l < Len(Trace)
  /\ l' = l + 1
  /\ IF Ev.ev = "Init"
     THEN /\ obj' = ObjOf(Ev.dev) /\ mode' = NoMode /\ err' = ""
          /\ i0' = l + 1 /\ errl' = 0 /\ nchg' = 0 /\ touched' = {}
     ELSE /\ Dispatch(Ev)
          \* objects a deleting / altering command addresses (whether or not the device accepts it)
          /\ touched' = touched \cup (CASE Ev.ev \in {"Clear", "TopNoLine"} -> {Ev.k}
                                        [] Ev.ev \in {"SubLine", "SubNoLine"} /\ mode.k # "" -> {mode.k}
                                        [] OTHER -> {})
          /\ i0' = i0
          /\ errl' = IF err = "" /\ err' # "" THEN l + 1 ELSE errl
          /\ nchg' = IF IsChange(Ev) THEN nchg + 1 ELSE nchg
TSpec == TInit /\ [][TNext]_<<dvars, tvars>>

-----------------------------------------------------------------------------
(* Equivalence (C01): canonical expansion rooted at the anchors; names of objects whose name *)
(* is generated are erased, references are replaced by the expansion of their target         *)
AnchorKinds == {"user", "tgm", "webvpn", "cmi"}
FixedKinds  == {"user", "tgm", "webvpn", "cmi"}
Anchors(o) == {k \in DOMAIN o : o[k].kind \in AnchorKinds /\ o[k].lines # {}}

RECURSIVE Expand(_, _, _)
Expand(o, k, d) ==
  IF d = 0 \/ k \notin DOMAIN o THEN [kind |-> "?", name |-> k, lines |-> {}]
  ELSE IF o[k].kind \in {"cmap", "dmap"}
  \* a crypto map is the set of its entries: sequence numbers (and the name) are free, an entry
  \* is the set of its settings
  THEN [kind |-> o[k].kind, name |-> "",
        lines |-> {[m |-> "*", t |-> "entry",
                    r |-> <<[kind |-> "entry", name |-> "",
                             lines |-> {[m |-> "", t |-> ln.t, r |-> [i \in DOMAIN ln.r |-> Expand(o, ln.r[i], d - 1)]] :
                                          ln \in {x \in o[k].lines : x.m = s}}]>>] : s \in {ln.m : ln \in o[k].lines}}]
  \* the sequence number of a certificate map rule (and of the tunnel-group-map line that names it) is free:
  \* rules are matched by their subject-name
  ELSE [kind |-> o[k].kind,
        name |-> IF o[k].kind \in FixedKinds THEN o[k].name ELSE "",
        lines |-> {[m |-> IF o[k].kind \in {"cm", "tgm"} THEN "" ELSE ln.m, t |-> ln.t, r |-> [i \in DOMAIN ln.r |-> Expand(o, ln.r[i], d - 1)]] : ln \in o[k].lines}]
Equivalent == {Expand(obj, k, 5) : k \in Anchors(obj)} = {Expand(T, k, 5) : k \in Anchors(T)}

(* Frame (C07): objects not reachable from an anchor whose names lack the generated tag, *)
(* and everything they reference                                                          *)
Refs(o, S) == S \cup UNION {UNION {Rng(ln.r) : ln \in o[k].lines} : k \in S \cap DOMAIN o}
Reach(o, S) == Refs(o, Refs(o, Refs(o, Refs(o, S))))
Gen0(k) == I0.dev.objs[k].gen
Unmanaged0 == Reach(D0, {k \in DOMAIN D0 : k \notin Reach(D0, Anchors(D0)) /\ ~Gen0(k)}) \cap DOMAIN D0
ManagedReach0 == Reach(D0, Anchors(D0))
Changed0 == {k \in Unmanaged0 : k \notin DOMAIN obj \/ obj[k].lines # D0[k].lines}
FrameViol ==
  IF (touched \cap Unmanaged0) \ ManagedReach0 # {} THEN "command deletes or alters an object outside Netspoc's scope"
  ELSE IF Changed0 # {} THEN "object outside Netspoc's scope deleted or changed" ELSE ""
\* Known finding (same class as SharedGroupEdit): an object that a managed anchor shares with a
\* hand-made, unanchored object is edited in place (and what it no longer references is cleaned up)
KF_SharedObjectEdit == FrameViol = "object outside Netspoc's scope deleted or changed"
                       /\ \A k \in Changed0 : k \in ManagedReach0

\* Known finding (C10): the cut fell inside a new crypto map entry before its `set peer` line: the device
\* holds an entry without peer and the resumed run aborts with "Missing peer or dynamic in crypto map"
PeerTexts == {"set peer 10.9.9.1", "set peer 10.9.9.2", "set peer 10.9.9.3", "ipsec-isakmp dynamic $"}
KF_Resume ==
  IF /\ l > 1 /\ Trace[l - 1].ev = "Resume" /\ LastEv.n2 = -1
     /\ \E k \in DOMAIN obj : /\ obj[k].kind = "cmap"
                             /\ \E s \in {ln.m : ln \in obj[k].lines} : ~\E ln \in obj[k].lines : ln.m = s /\ ln.t \in PeerTexts
  THEN "AsaCryptoIncompleteEntry" ELSE ""

Post(j) == obj = ObjOf(j)
Chk(ok, tag, detail, kf) == ok \/ PrintT(<<"VERR", LastEv.t, l, tag, detail, kf>>)
Mon ==
  /\ Chk(~(err # "" /\ errl = l), "C08", err, "")
  /\ Chk(LastEv.ev = "Init" \/ FrameViol = "", "C07", FrameViol, IF KF_SharedObjectEdit THEN "SharedObjectEdit" ELSE "")
  /\ Chk(LastEv.ev \in {"Resume", "Done"} => Post(LastEv.post), "HARNESS", "post state of replica differs", "")
  /\ Chk(LastEv.ev = "Done" /\ IsMerge => Equivalent, "C18", "a setting of the raw file is lost, doubled or did not replace the Netspoc setting", "")
  /\ Chk(LastEv.ev = "Done" /\ ~IsMerge => Equivalent, "EQUIV", IF nchg = 0 THEN "unchanged" ELSE "final", KF_Resume)
  /\ Chk(LastEv.ev = "Done" => LastEv.n2 = 0, "FIXPOINT", "second compare reports changes", KF_Resume)
Accepted == TLCGet("stats").diameter = Len(Trace)
=============================================================================
