SPECIFICATION Spec
CONSTANTS
  Inst = {1, 2}
  MaxRev = 3
  MaxKill = 2
  Fix7 = TRUE
INVARIANTS CurrentValid OneAtATime NumbersGrow OnlyCompiled Recovered
CHECK_DEADLOCK FALSE
