--------------------------- MODULE NewPolicyTrace ---------------------------
(* Validates what the DEBUG-trap tracer recorded from the UNMODIFIED bin/newpolicy.sh.     *)
(* One trace:  Init ; (Cmd | Killed | RunEnd)* ; Final.   Every Cmd carries a snapshot of   *)
(* the policy database taken right before that simple command ran.  The verdict is taken   *)
(* on the observed snapshots; the repository side (which revision compiles) is environment.*)
EXTENDS Integers, Sequences, FiniteSets, TLC, Json, IOUtils

VARIABLES l, i0, lastCur, maxCur, maxDir, seenDirs, working, bad
tvars == <<l, i0, lastCur, maxCur, maxDir, seenDirs, working, bad>>

Trace  == ndJsonDeserialize(IOEnv.TRACE)
Ev     == Trace[l + 1]
LastEv == Trace[l]

TInit == l = 1 /\ i0 = 1 /\ Trace[1].ev = "Init" /\ lastCur = 0 /\ maxCur = 0 /\ maxDir = 0
         /\ seenDirs = {} /\ working = 0 /\ bad = ""

Flag(msg) == IF bad = "" THEN msg ELSE bad
Nums(ds) == {ds[k].n : k \in DOMAIN ds}
\* commands every instance runs before it owns the lock
Preamble(e) == e.pre

TNext ==
  /\ l < Len(Trace)
  /\ l' = l + 1
  /\ CASE Ev.ev = "Init" ->
            i0' = l + 1 /\ lastCur' = 0 /\ maxCur' = 0 /\ maxDir' = 0 /\ seenDirs' = {} /\ working' = 0 /\ bad' = ""
       [] Ev.ev = "Cmd" ->
            /\ i0' = i0
            /\ lastCur' = Ev.cur
            /\ maxCur' = IF Ev.cur > maxCur THEN Ev.cur ELSE maxCur
            /\ seenDirs' = seenDirs \cup Nums(Ev.dirs)
            /\ maxDir' = IF Nums(Ev.dirs) \ seenDirs # {} THEN
                            (CHOOSE m \in Nums(Ev.dirs) \ seenDirs : \A x \in Nums(Ev.dirs) \ seenDirs : x <= m)
                         ELSE maxDir
            /\ working' = IF Preamble(Ev) THEN working ELSE Ev.inst
            /\ bad' = CASE Ev.cur # 0 /\ ~\E k \in DOMAIN Ev.dirs : Ev.dirs[k].n = Ev.cur /\ Ev.dirs[k].ok
                             -> Flag("`current` names a directory that is missing or was not produced by a successful compile")
                        [] Ev.cur # 0 /\ Ev.cur # lastCur /\ Ev.cur <= maxCur
                             -> Flag("policy number of `current` did not increase")
                        [] \E x \in Nums(Ev.dirs) \ seenDirs : seenDirs # {} /\ x <= maxDir
                             -> Flag("new policy directory does not exceed all earlier policy numbers")
                        [] ~Preamble(Ev) /\ working # 0 /\ working # Ev.inst
                             -> Flag("two newpolicy.sh instances work on the policy database at the same time")
                        [] OTHER -> bad
       [] Ev.ev \in {"Killed", "RunEnd"} ->
            /\ working' = IF working = Ev.inst THEN 0 ELSE working
            /\ UNCHANGED <<i0, lastCur, maxCur, maxDir, seenDirs, bad>>
       [] OTHER -> UNCHANGED <<i0, lastCur, maxCur, maxDir, seenDirs, working, bad>>

TSpec == TInit /\ [][TNext]_tvars

Chk(ok, tag, detail, kf) == ok \/ PrintT(<<"VERR", LastEv.t, l, tag, detail, kf>>)
F == LastEv
AtFinal == LastEv.ev = "Final"

\* Known finding 7 (repaired): killed while policies/next held a clone of the remote head
Mon ==
  /\ Chk(AtFinal => bad = "", "C19", bad, "")
  /\ Chk(AtFinal /\ F.headGood => (F.cur # 0 /\ F.curContent = F.head), "C19",
         "the undisturbed run did not make the newest compiling revision current", "")
  /\ Chk(AtFinal /\ ~F.headGood => F.cur = F.curBefore, "C19", "a revision that does not compile changed `current`", "")
  \* the head does not compile: the newest revision of the history that does is the one `current` shows
  /\ Chk(AtFinal /\ ~F.headGood /\ F.best # "" => F.curContent = F.best, "C19",
         "the newest compiling revision of the history is not current (the head does not compile)", "")
Accepted == TLCGet("stats").diameter = Len(Trace)
=============================================================================
