------------------------------ MODULE NewPolicy ------------------------------
(***************************************************************************)
(* bin/newpolicy.sh: one label per file-system- or repository-visible      *)
(* simple command, several instances, an environment that commits good or  *)
(* bad revisions, and a kill of the script at any label.                   *)
(*                                                                         *)
(* revs   : the remote repository (sequence of revisions, head = last)     *)
(* dirs   : policy directories produced by `mv next pN`                    *)
(* next   : the working directory policies/next                            *)
(* cur    : number the link `current` points to (0 = absent)               *)
(***************************************************************************)
EXTENDS Integers, Sequences, FiniteSets, TLC

CONSTANTS Inst, MaxRev, MaxKill,
          Fix7     \* TRUE: uptodate() trusts `next` only if the `failed` marker exists,
                   \*       prepare_next removes the marker (repair of finding 7)

VARIABLES revs, dirs, next, cur, failed, lock, pc, loc, kills, quiesced, maxn
vars == <<revs, dirs, next, cur, failed, lock, pc, loc, kills, quiesced, maxn>>

HeadRev == Len(revs)
NoNext == [ex |-> FALSE, src |-> 0, cid |-> 0, ok |-> FALSE]
SrcRevOf(n) == LET s == {d \in dirs : d.n = n} IN IF s = {} THEN 0 ELSE (CHOOSE d \in s : TRUE).srcrev
Max(a, b) == IF a > b THEN a ELSE b

Init ==
  /\ revs = << [good |-> TRUE, email |-> TRUE, cid |-> 1, pol |-> 0] >>
  /\ dirs = {} /\ next = NoNext /\ cur = 0 /\ failed = FALSE /\ lock = 0
  /\ pc = [i \in Inst |-> "idle"] /\ loc = [i \in Inst |-> [r |-> 0, count |-> 0]]
  /\ kills = 0 /\ quiesced = FALSE /\ maxn = 0

Goto(i, l) == pc' = [pc EXCEPT ![i] = l]
Only(i, l) == pc[i] = l

Start(i) == Only(i, "idle") /\ Goto(i, "trylock")
            /\ UNCHANGED <<revs, dirs, next, cur, failed, lock, loc, kills, quiesced, maxn>>

TryLock(i) ==
  /\ Only(i, "trylock")
  /\ IF lock = 0 THEN lock' = i /\ Goto(i, "uptodate") ELSE lock' = lock /\ Goto(i, "done")   \* exit 1
  /\ UNCHANGED <<revs, dirs, next, cur, failed, loc, kills, quiesced, maxn>>

UpToDate(i) ==
  /\ Only(i, "uptodate")
  /\ LET d == IF next.ex /\ (Fix7 => failed) THEN next.src ELSE IF cur # 0 THEN SrcRevOf(cur) ELSE 0
     IN IF d # 0 /\ d = HeadRev THEN Goto(i, "release") ELSE Goto(i, "rmnext")
  /\ UNCHANGED <<revs, dirs, next, cur, failed, lock, loc, kills, quiesced, maxn>>

RmNext(i) == /\ Only(i, "rmnext") /\ next' = NoNext /\ failed' = (IF Fix7 THEN FALSE ELSE failed) /\ Goto(i, "mknext")
             /\ UNCHANGED <<revs, dirs, cur, lock, loc, kills, quiesced, maxn>>
MkNext(i) == /\ Only(i, "mknext") /\ next' = [NoNext EXCEPT !.ex = TRUE] /\ Goto(i, "clone")
             /\ UNCHANGED <<revs, dirs, cur, failed, lock, loc, kills, quiesced, maxn>>
Clone(i)  == /\ Only(i, "clone") /\ next' = [next EXCEPT !.src = HeadRev, !.cid = revs[HeadRev].cid]
             /\ loc' = [loc EXCEPT ![i].r = HeadRev] /\ Goto(i, "counts")
             /\ UNCHANGED <<revs, dirs, cur, failed, lock, kills, quiesced, maxn>>
Counts(i) == /\ Only(i, "counts") /\ loc' = [loc EXCEPT ![i].count = Max(revs[loc[i].r].pol, cur) + 1]
             /\ Goto(i, "compile")
             /\ UNCHANGED <<revs, dirs, next, cur, failed, lock, kills, quiesced, maxn>>
Compile(i) ==
  /\ Only(i, "compile")
  /\ IF revs[loc[i].r].good THEN next' = [next EXCEPT !.ok = TRUE] /\ Goto(i, "push")
     ELSE next' = next /\ Goto(i, "touchfailed")
  /\ UNCHANGED <<revs, dirs, cur, failed, lock, loc, kills, quiesced, maxn>>
TouchFailed(i) == /\ Only(i, "touchfailed") /\ failed' = TRUE /\ Goto(i, "revert")
                  /\ UNCHANGED <<revs, dirs, next, cur, lock, loc, kills, quiesced, maxn>>
\* try_revert: only commits of authors with an e-mail address are reverted
Revert(i) ==
  /\ Only(i, "revert")
  /\ LET r == loc[i].r IN
     IF revs[r].email /\ r > 1 /\ Len(revs) < MaxRev + 4
     THEN /\ revs' = Append(revs, [good |-> revs[r - 1].good /\ HeadRev = r, email |-> FALSE,
                                   cid |-> IF HeadRev = r THEN revs[r - 1].cid ELSE revs[HeadRev].cid, pol |-> revs[HeadRev].pol])
          /\ Goto(i, "rmnext")
     ELSE revs' = revs /\ Goto(i, "release")
  /\ UNCHANGED <<dirs, next, cur, failed, lock, loc, kills, quiesced, maxn>>
\* git commit POLICY; pull; push; reset --hard own commit
Push(i) ==
  /\ Only(i, "push")
  /\ LET r == loc[i].r
         clean == HeadRev = r IN
     /\ revs' = Append(revs, [good |-> revs[HeadRev].good, email |-> FALSE, cid |-> revs[HeadRev].cid, pol |-> loc[i].count])
     /\ next' = [next EXCEPT !.src = IF clean THEN HeadRev + 1 ELSE 0]
  /\ Goto(i, "mvnext")
  /\ UNCHANGED <<dirs, cur, failed, lock, loc, kills, quiesced, maxn>>
MvNext(i) == /\ Only(i, "mvnext")
             /\ dirs' = dirs \cup {[n |-> loc[i].count, cid |-> next.cid, srcrev |-> next.src]}
             /\ maxn' = Max(maxn, loc[i].count)
             /\ next' = NoNext /\ Goto(i, "rmcur")
             /\ UNCHANGED <<revs, cur, failed, lock, loc, kills, quiesced>>
RmCur(i) == /\ Only(i, "rmcur") /\ cur' = 0 /\ Goto(i, "lncur")
            /\ UNCHANGED <<revs, dirs, next, failed, lock, loc, kills, quiesced, maxn>>
LnCur(i) == /\ Only(i, "lncur") /\ cur' = loc[i].count /\ Goto(i, "rmfailed")
            /\ UNCHANGED <<revs, dirs, next, failed, lock, loc, kills, quiesced, maxn>>
RmFailed(i) == /\ Only(i, "rmfailed") /\ failed' = FALSE /\ Goto(i, "release")
               /\ UNCHANGED <<revs, dirs, next, cur, lock, loc, kills, quiesced, maxn>>
Release(i) == /\ Only(i, "release") /\ lock' = 0 /\ Goto(i, "done")
              /\ UNCHANGED <<revs, dirs, next, cur, failed, loc, kills, quiesced, maxn>>

Kill(i) ==
  /\ ~quiesced /\ kills < MaxKill /\ pc[i] \notin {"idle", "done"}
  /\ kills' = kills + 1
  /\ pc' = [pc EXCEPT ![i] = "idle"]
  /\ lock' = IF lock = i THEN 0 ELSE lock
  /\ UNCHANGED <<revs, dirs, next, cur, failed, loc, quiesced, maxn>>

EnvCommit(g, e) ==
  /\ ~quiesced /\ Len(revs) < MaxRev
  /\ revs' = Append(revs, [good |-> g, email |-> e, cid |-> Len(revs) + 1, pol |-> revs[HeadRev].pol])
  /\ UNCHANGED <<dirs, next, cur, failed, lock, pc, loc, kills, quiesced, maxn>>

\* kills and commits stop; every instance that is not running may run once more
Quiesce ==
  /\ ~quiesced /\ \A i \in Inst : pc[i] \in {"idle", "done"}
  /\ quiesced' = TRUE
  /\ pc' = [i \in Inst |-> "idle"]
  /\ UNCHANGED <<revs, dirs, next, cur, failed, lock, loc, kills, maxn>>

Next ==
  \/ \E i \in Inst : Start(i) \/ TryLock(i) \/ UpToDate(i) \/ RmNext(i) \/ MkNext(i) \/ Clone(i) \/ Counts(i)
        \/ Compile(i) \/ TouchFailed(i) \/ Revert(i) \/ Push(i) \/ MvNext(i) \/ RmCur(i) \/ LnCur(i)
        \/ RmFailed(i) \/ Release(i) \/ Kill(i)
  \/ \E g, e \in BOOLEAN : EnvCommit(g, e)
  \/ Quiesce

Spec == Init /\ [][Next]_vars

-----------------------------------------------------------------------------
Working == {"uptodate", "rmnext", "mknext", "clone", "counts", "compile", "touchfailed", "revert", "push",
            "mvnext", "rmcur", "lncur", "rmfailed", "release"}
CurrentValid  == cur = 0 \/ \E d \in dirs : d.n = cur
OneAtATime    == Cardinality({i \in Inst : pc[i] \in Working}) <= 1
NumbersGrow   == \A d \in dirs : d.n <= maxn
\* a policy directory is only ever made from a revision that compiled
OnlyCompiled  == \A d \in dirs : \E k \in DOMAIN revs : revs[k].cid = d.cid /\ revs[k].good
\* the next undisturbed run makes the newest compiling revision current
Recovered ==
  (quiesced /\ \A i \in Inst : pc[i] = "done") /\ revs[HeadRev].good
     => \E d \in dirs : d.n = cur /\ d.cid = revs[HeadRev].cid
=============================================================================
