SPECIFICATION Spec
CONSTANTS
  Contents = {"X", "Y", "E"}
  EmptyContents = {"E"}
  MaxPol = 3
  MaxEv = 7
  Fix9a = TRUE
  Fix9c = FALSE
INVARIANTS TypeOK StatusSane NeverForgets Omits
CHECK_DEADLOCK FALSE
