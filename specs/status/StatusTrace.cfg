SPECIFICATION TSpec
CONSTANTS
  Contents = {"X", "Y", "E", "XR", "XS", "X6", "Z6", "O6", "XE", "V4", "R6", "O6R", "O6S"}
  EmptyContents = {"E"}
  MaxPol = 1000
  MaxEv = 100000
  Fix9a = TRUE
  Fix9c = TRUE
INVARIANTS Mon
POSTCONDITION Accepted
CHECK_DEADLOCK FALSE
