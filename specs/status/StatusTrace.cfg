SPECIFICATION TSpec
CONSTANTS
  Contents = {"X", "Y", "E", "XR", "XS", "X6", "Z6", "O6", "XE"}
  EmptyContents = {"E"}
  MaxPol = 1000
  MaxEv = 100000
  Fix9a = TRUE
  Fix9c = TRUE
INVARIANTS Mon
POSTCONDITION Accepted
CHECK_DEADLOCK FALSE
