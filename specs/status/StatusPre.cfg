SPECIFICATION Spec
CONSTANTS
  Contents = {"X", "Y", "E"}
  EmptyContents = {"E"}
  MaxPol = 3
  MaxEv = 7
  Fix9a = FALSE
  Fix9c = FALSE
INVARIANTS TypeOK StatusSane NeverForgets Omits
CHECK_DEADLOCK FALSE
