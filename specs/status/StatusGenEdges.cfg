SPECIFICATION GSpecE
CONSTANTS
  Contents = {"X", "Y", "E"}
  EmptyContents = {"E"}
  MaxPol = 3
  MaxEv = 4
  Fix9a = TRUE
  Fix9c = TRUE
VIEW GViewRank
CHECK_DEADLOCK FALSE
