SPECIFICATION Spec
CONSTANTS
  Contents = {"X", "Y", "E"}
  EmptyContents = {"E"}
  MaxPol = 3
  MaxEv = 7
  Fix9a = TRUE
  Fix9c = TRUE
INVARIANTS TypeOK StatusSane NeverForgets Omits
CHECK_DEADLOCK FALSE
