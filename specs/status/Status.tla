------------------------------- MODULE Status -------------------------------
(***************************************************************************)
(* The policy database, the device, the two-slot status file written by    *)
(* do-approve (pkg/status) and the decision of missing-approve.            *)
(*                                                                         *)
(* Environment part  : pol, dev, clock, and the history variables lastObs, *)
(*                     obsT, okT, failT, corrT.                            *)
(* Transcribed part  : st (status.SetApprove / status.SetCompare) and      *)
(*                     Listed (cmd/missing-approve check()).               *)
(* Property C13      : NeverForgets, Omits.                                *)
(***************************************************************************)
EXTENDS Integers, Sequences, FiniteSets, TLC

CONSTANTS Contents,       \* abstract code contents (v4 + v6 + raw files of the device)
          EmptyContents,  \* contents whose files are all empty: Go compares nil and [] as equal
          MaxPol, MaxEv,
          Fix9a,          \* TRUE: transcription of missing-approve after fix 9a (absent # empty)
          Fix9c           \* TRUE: transcription of status.SetApprove after fix 9c

VARIABLES pol,      \* Seq of [disk : {"plain","bz2","removed"}, c : Contents]; current = last
          dev,      \* content the device really carries
          st,       \* status file: [bad, ar, ap, at, cr, cp, ct]
          clock,    \* strictly increasing
          lastObs,  \* latest conclusive observation [kind, p]
          obsT,     \* its time
          okT,      \* time of the last successful approve
          failT,    \* time of the last failed approve
          corrT,    \* time of the last damage to the status file
          nev       \* number of events so far (bound only)

vars == <<pol, dev, st, clock, lastObs, obsT, okT, failT, corrT, nev>>

Zero == [bad |-> FALSE, ar |-> "", ap |-> 0, at |-> 0, cr |-> "", cp |-> 0, ct |-> 0]
Cur  == Len(pol)
now  == clock + 1

OnDisk(p) == pol[p].disk # "removed"

\* status.Read: a missing or unparsable file yields the zero value
ReadSt == IF st.bad THEN Zero ELSE st

\* status.SetApprove
SetApprove(failed) ==
  LET v  == ReadSt
      v1 == IF Fix9c /\ failed /\ v.ar = "OK" /\ v.ct < v.at
            THEN [v EXCEPT !.cr = "", !.cp = 0, !.ct = 0] ELSE v
  IN [v1 EXCEPT !.ar = IF failed THEN "FAILED" ELSE "OK", !.ap = Cur, !.at = now]

\* status.SetCompare
SetCompare(changed) ==
  LET v == ReadSt IN
  IF ~changed THEN [v EXCEPT !.cr = "UPTODATE", !.cp = Cur, !.ct = now]
  ELSE IF v.cr # "DIFF" \/ v.ct < v.at
       THEN [v EXCEPT !.cr = "DIFF", !.cp = Cur, !.ct = now]
       ELSE st      \* sticky DIFF: nothing is written

\* missing-approve: comparison of the six code files of two policies
SameFiles(p) ==
  IF pol[p].disk = "removed"
  THEN (~Fix9a /\ pol[Cur].c \in EmptyContents)
  ELSE pol[p].c = pol[Cur].c

\* missing-approve check()
Listed ==
  LET v   == ReadSt
      ok  == v.ar \in {"OK", "WARNINGS"}
      dp0 == IF ok THEN v.ap ELSE 0
      at0 == IF ok THEN v.at ELSE 0
      dp  == IF at0 < v.ct
             THEN (CASE v.cr = "UPTODATE" -> v.cp
                     [] v.cr = "DIFF"     -> 0
                     [] OTHER             -> dp0)
             ELSE dp0
  IN IF dp = 0 THEN TRUE
     ELSE IF dp = Cur THEN FALSE
     ELSE ~SameFiles(dp)

-----------------------------------------------------------------------------
Init ==
  /\ \E c \in Contents : pol = << [disk |-> "plain", c |-> c] >>
  /\ dev \in Contents
  /\ st = [Zero EXCEPT !.bad = TRUE]       \* no status file yet
  /\ clock = 0 /\ nev = 0
  /\ lastObs = [kind |-> "none", p |-> 0]
  /\ obsT = 0 /\ okT = 0 /\ failT = 0 /\ corrT = 0

Tick == clock' = now /\ nev' = nev + 1

NewPolicy(c) ==
  /\ Len(pol) < MaxPol
  /\ Tick
  /\ pol' = Append(pol, [disk |-> "plain", c |-> c])
  /\ UNCHANGED <<dev, st, lastObs, obsT, okT, failT, corrT>>

ApproveOK ==
  /\ Tick
  /\ dev' = pol[Cur].c
  /\ st' = SetApprove(FALSE)
  /\ lastObs' = [kind |-> "approve", p |-> Cur]
  /\ obsT' = now /\ okT' = now
  /\ UNCHANGED <<pol, failT, corrT>>

\* a failed approve is taken to leave the device as it was
ApproveFail ==
  /\ Tick
  /\ st' = SetApprove(TRUE)
  /\ failT' = now
  /\ UNCHANGED <<pol, dev, lastObs, obsT, okT, corrT>>

Compare ==
  /\ Tick
  /\ LET changed == dev # pol[Cur].c IN
       /\ st' = SetCompare(changed)
       /\ lastObs' = [kind |-> IF changed THEN "diff" ELSE "uptodate", p |-> Cur]
  /\ obsT' = now
  /\ UNCHANGED <<pol, dev, okT, failT, corrT>>

\* a compare that cannot reach the device is recorded as DIFF
CompareUnreach ==
  /\ Tick
  /\ st' = SetCompare(TRUE)
  /\ lastObs' = [kind |-> "diff", p |-> Cur]
  /\ obsT' = now
  /\ UNCHANGED <<pol, dev, okT, failT, corrT>>

Drift(c) ==
  /\ c # dev
  /\ Tick
  /\ dev' = c
  /\ UNCHANGED <<pol, st, lastObs, obsT, okT, failT, corrT>>

Compress(p) ==
  /\ p \in 1..(Cur - 1) /\ pol[p].disk = "plain"
  /\ Tick
  /\ pol' = [pol EXCEPT ![p].disk = "bz2"]
  /\ UNCHANGED <<dev, st, lastObs, obsT, okT, failT, corrT>>

Remove(p) ==
  /\ p \in 1..(Cur - 1) /\ pol[p].disk # "removed"
  /\ Tick
  /\ pol' = [pol EXCEPT ![p].disk = "removed"]
  /\ UNCHANGED <<dev, st, lastObs, obsT, okT, failT, corrT>>

Corrupt ==
  /\ Tick
  /\ st' = [st EXCEPT !.bad = TRUE]
  /\ corrT' = now
  /\ UNCHANGED <<pol, dev, lastObs, obsT, okT, failT>>

Next ==
  /\ nev < MaxEv
  /\ \/ \E c \in Contents : NewPolicy(c)
     \/ ApproveOK \/ ApproveFail \/ Compare \/ CompareUnreach
     \/ \E c \in Contents : Drift(c)
     \/ \E p \in 1..MaxPol : Compress(p) \/ Remove(p)
     \/ Corrupt

Spec == Init /\ [][Next]_vars

-----------------------------------------------------------------------------
(* Property C13 *)

Establishes ==
  /\ lastObs.kind \in {"approve", "uptodate"}
  /\ pol[lastObs.p].c = pol[Cur].c

IntactSince == corrT < obsT

\* Known finding 9b: a failed approve after the successful one that is the
\* latest observation hides the OK record; the device is listed (conservative).
KF_FailedAfterApprove == lastObs.kind = "approve" /\ failT > obsT

NeverForgetsP(listed) == ~Establishes => listed
OmitsP(listed) ==
  (Establishes /\ OnDisk(lastObs.p) /\ IntactSince /\ ~KF_FailedAfterApprove) => ~listed
OmitsStrictP(listed) ==
  (Establishes /\ OnDisk(lastObs.p) /\ IntactSince) => ~listed

NeverForgets == NeverForgetsP(Listed)
Omits        == OmitsP(Listed)
OmitsStrict  == OmitsStrictP(Listed)

TypeOK ==
  /\ dev \in Contents
  /\ \A i \in DOMAIN pol : pol[i].c \in Contents /\ pol[i].disk \in {"plain", "bz2", "removed"}
  /\ st.ar \in {"", "OK", "FAILED"} /\ st.cr \in {"", "UPTODATE", "DIFF"}
  /\ st.at <= clock /\ st.ct <= clock
  /\ OnDisk(Cur)

\* every status record names an existing policy; times of the two slots differ
StatusSane ==
  /\ st.ap \in 0..Cur /\ st.cp \in 0..Cur
  /\ (st.at # 0 /\ st.ct # 0) => st.at # st.ct
=============================================================================
