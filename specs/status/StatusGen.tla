----------------------------- MODULE StatusGen -----------------------------
(* Behaviour generator: Status plus a history variable that is printed as   *)
(* JSON for every behaviour of maximal bounded length.  Used with BFS       *)
(* (all paths, no VIEW) and with -simulate.                                 *)
EXTENDS Status, Json

VARIABLE hist

GInit == Init /\ hist = << [ev |-> "Init", c |-> pol[1].c, dev |-> dev] >>

Log(e) == hist' = Append(hist, e)

CorruptKinds == {"trunc", "empty", "garbage", "removed"}

GNext ==
  /\ nev < MaxEv
  /\ \/ \E c \in Contents : NewPolicy(c) /\ Log([ev |-> "NewPolicy", c |-> c])
     \/ ApproveOK /\ Log([ev |-> "ApproveOK"])
     \/ ApproveFail /\ Log([ev |-> "ApproveFail"])
     \/ Compare /\ Log([ev |-> "Compare"])
     \/ CompareUnreach /\ Log([ev |-> "CompareUnreach"])
     \/ \E c \in Contents : Drift(c) /\ Log([ev |-> "Drift", c |-> c])
     \/ \E p \in 1..MaxPol : Compress(p) /\ Log([ev |-> "Compress", p |-> p])
     \/ \E p \in 1..MaxPol : Remove(p) /\ Log([ev |-> "Remove", p |-> p])
     \/ \E k \in CorruptKinds : Corrupt /\ Log([ev |-> "Corrupt", kind |-> k])

\* edge coverage: print the history of every generated successor (before TLC deduplicates it)
GNextE == GNext /\ PrintT(<<"VOUT", ToJson(hist')>>)
GSpecE == GInit /\ [][GNextE]_<<vars, hist>>

GSpec == GInit /\ [][GNext]_<<vars, hist>>

\* VIEW for edge coverage: absolute times are replaced by their rank order
Times == {st.at, st.ct, obsT, okT, failT, corrT}
Rank(t) == Cardinality({u \in Times : u < t})
GViewRank == << pol, dev, lastObs, st.bad, st.ar, st.ap, st.cr, st.cp,
               Rank(st.at), Rank(st.ct), Rank(obsT), Rank(okT), Rank(failT), Rank(corrT) >>
GenOut == nev = MaxEv => PrintT(<<"VOUT", ToJson(hist)>>)
=============================================================================
