---------------------------- MODULE StatusTrace ----------------------------
(* Validates traces recorded from the real status package and the real      *)
(* missing-approve binary.  The specification is environment (pol, dev,     *)
(* clock, history variables) and property monitor; the verdict is taken on  *)
(* the OBSERVED listing.  The transcription (st, Listed) is compared too,   *)
(* but a difference there is only reported as drift.                        *)
EXTENDS Status, Json, IOUtils

VARIABLE l          \* number of trace lines consumed

Trace == ndJsonDeserialize(IOEnv.TRACE)
Ev == Trace[l + 1]

InitFrom(e) ==
  /\ pol = << [disk |-> "plain", c |-> e.c] >>
  /\ dev = e.dev
  /\ st = [Zero EXCEPT !.bad = TRUE]
  /\ clock = 0 /\ nev = 0
  /\ lastObs = [kind |-> "none", p |-> 0]
  /\ obsT = 0 /\ okT = 0 /\ failT = 0 /\ corrT = 0

TInit == l = 1 /\ Trace[1].ev = "Init" /\ InitFrom(Trace[1])

TReset ==
  /\ Ev.ev = "Init"
  /\ pol' = << [disk |-> "plain", c |-> Ev.c] >>
  /\ dev' = Ev.dev
  /\ st' = [Zero EXCEPT !.bad = TRUE]
  /\ clock' = 0 /\ nev' = 0
  /\ lastObs' = [kind |-> "none", p |-> 0]
  /\ obsT' = 0 /\ okT' = 0 /\ failT' = 0 /\ corrT' = 0

TNext ==
  /\ l < Len(Trace)
  /\ l' = l + 1
  /\ \/ TReset
     \/ Ev.ev = "NewPolicy" /\ NewPolicy(Ev.c)
     \/ Ev.ev = "ApproveOK" /\ ApproveOK
     \/ Ev.ev = "ApproveFail" /\ ApproveFail
     \/ Ev.ev = "Compare" /\ Compare
     \/ Ev.ev = "CompareUnreach" /\ CompareUnreach
     \/ Ev.ev = "Drift" /\ Drift(Ev.c)
     \/ Ev.ev = "Compress" /\ Compress(Ev.p)
     \/ Ev.ev = "Remove" /\ Remove(Ev.p)
     \/ Ev.ev = "Corrupt" /\ Corrupt

TSpec == TInit /\ [][TNext]_<<vars, l>>

-----------------------------------------------------------------------------
(* Monitor: evaluated in the state reached after consuming line l. *)
Last == Trace[l]

Chk(ok, tag, kf) == ok \/ PrintT(<<"VERR", Last.t, l, tag, kf>>)

Mon ==
  /\ Chk(Last.dev = dev /\ Last.clock = clock, "HARNESS", "environment")
  /\ Chk(Last.ev = "Compare" => Last.changed = (dev # pol[Cur].c), "HARNESS", "changed")
  \* Last.o: missing-approve was run after this event (a prefix shared by several
  \* behaviours is observed only once)
  /\ Chk(Last.o => NeverForgetsP(Last.listed), "NeverForgets", "")
  /\ Chk(Last.o => OmitsStrictP(Last.listed), "Omits",
         IF KF_FailedAfterApprove THEN "FailedAfterApprove" ELSE "")
  /\ Chk(Last.o => Last.listed = Listed, "DRIFT", "listed")
  \* devices that were never approved (a dual-stack, an IPv4-only and an IPv6-only bystander) are always listed
  /\ Chk(Last.o => Last.others, "NeverForgets", "")
  /\ Chk(Last.st.bad = st.bad /\ (~st.bad => Last.st = st), "DRIFT", "status")

Accepted == TLCGet("stats").diameter = Len(Trace)
=============================================================================
