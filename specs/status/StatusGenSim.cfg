SPECIFICATION GSpec
CONSTANTS
  Contents = {"X", "Y", "E", "XR", "X6", "O6", "V4", "R6", "O6R", "O6S"}
  EmptyContents = {"E"}
  MaxPol = 4
  MaxEv = 10
  Fix9a = TRUE
  Fix9c = TRUE
INVARIANTS GenOut
CHECK_DEADLOCK FALSE
