SPECIFICATION GSpec
CONSTANTS
  Contents = {"X", "Y", "E", "XR", "X6", "O6"}
  EmptyContents = {"E"}
  MaxPol = 4
  MaxEv = 10
  Fix9a = TRUE
  Fix9c = TRUE
INVARIANTS GenOut
CHECK_DEADLOCK FALSE
