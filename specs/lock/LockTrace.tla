------------------------------ MODULE LockTrace ------------------------------
(* Validates schedules of real concurrent drc / do-approve processes.  The harness serialises  *)
(* all events through gates (inside the simulator and at the verif hooks), so the recorded     *)
(* order is the real order.  Events:                                                           *)
(*   Init ; Start(p) ; Held(p, at) ; Exit(p, rc, refused, wrote, talked) ; Kill(p)             *)
(* Held(p) is proof that p owns the lock (it is blocked inside its session or at a hook        *)
(* behind SetLock).                                                                            *)
EXTENDS Integers, Sequences, FiniteSets, TLC, Json, IOUtils

VARIABLES l, i0, holder, startedUnder
tvars == <<l, i0, holder, startedUnder>>

Trace  == ndJsonDeserialize(IOEnv.TRACE)
Ev     == Trace[l + 1]
LastEv == Trace[l]

TInit == l = 1 /\ i0 = 1 /\ Trace[1].ev = "Init" /\ holder = 0 /\ startedUnder = {}

TNext ==
  /\ l < Len(Trace)
  /\ l' = l + 1
  /\ CASE Ev.ev = "Init"  -> i0' = l + 1 /\ holder' = 0 /\ startedUnder' = {}
       [] Ev.ev = "Held"  -> i0' = i0 /\ holder' = Ev.p /\ startedUnder' = startedUnder
       \* a process started while another one provably holds the device
       [] Ev.ev = "Start" -> i0' = i0 /\ holder' = holder
                             /\ startedUnder' = IF holder # 0 THEN startedUnder \cup {Ev.p} ELSE startedUnder
       [] Ev.ev = "Exit"  -> i0' = i0 /\ holder' = (IF holder = Ev.p THEN 0 ELSE holder) /\ startedUnder' = startedUnder
       [] Ev.ev = "Kill"  -> i0' = i0 /\ holder' = (IF holder = Ev.p THEN 0 ELSE holder) /\ startedUnder' = startedUnder
       [] OTHER -> UNCHANGED <<i0, holder, startedUnder>>

TSpec == TInit /\ [][TNext]_tvars

Chk(ok, tag, detail, kf) == ok \/ PrintT(<<"VERR", LastEv.t, l, tag, detail, kf>>)
E == LastEv
Contender == E.ev = "Exit" /\ E.p \in startedUnder
Mon ==
  /\ Chk(Contender => E.rc = 1 /\ E.refused, "C12", "a run started while the device was held did not fail with 'Approve in progress'", "")
  /\ Chk(Contender => ~E.talked, "C12", "two sessions talked to the device at the same time", "")
  /\ Chk(Contender => ~E.wrote, "C12", "the losing run touched status, history or log files", "")
  /\ Chk(E.ev = "Exit" /\ E.p \notin startedUnder => E.rc = 0 /\ ~E.refused, "C12", "a run that found the device free did not proceed", "")
  /\ Chk(E.ev = "Held" => \A k \in (i0 + 1)..(l - 1) : ~(Trace[k].ev = "Held" /\ Trace[k].p # E.p /\ \A j \in k..l : ~(Trace[j].ev \in {"Exit", "Kill"} /\ Trace[j].p = Trace[k].p)),
         "C12", "two processes hold the device at the same time", "")
Accepted == TLCGet("stats").diameter = Len(Trace)
=============================================================================
