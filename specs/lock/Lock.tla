-------------------------------- MODULE Lock --------------------------------
(***************************************************************************)
(* Exclusive access to one device: N invocations of drc / do-approve for   *)
(* the same device, each following the real step order of its front-end,   *)
(* any of them killed at any point.  The lock is an exclusive non-blocking *)
(* flock on basedir/lock/<device>; the kernel drops it when the holder's   *)
(* process ends.                                                           *)
(***************************************************************************)
EXTENDS Integers, FiniteSets, TLC

CONSTANTS Procs

VARIABLES fe,      \* front-end of every process: "drc" | "doapprove"
          pc,      \* program counter
          lock,    \* holder or 0
          wrote,   \* processes that have written device / status / history / log
          overlap  \* history: two processes were inside a session at once

vars == <<fe, pc, lock, wrote, overlap>>

\* phases in which a process owns the device
Holding == {"locked", "hist", "session", "status", "histend"}
Inside(p) == pc[p] \in Holding

Init ==
  /\ fe \in [Procs -> {"drc", "doapprove"}]
  /\ pc = [p \in Procs |-> "start"]
  /\ lock = 0 /\ wrote = {} /\ overlap = FALSE

Step(p, from, to) == pc[p] = from /\ pc' = [pc EXCEPT ![p] = to]

ReadConfig(p) == Step(p, "start", "trylock") /\ UNCHANGED <<fe, lock, wrote, overlap>>

TryLock(p) ==
  /\ pc[p] = "trylock"
  /\ IF lock = 0
     THEN lock' = p /\ pc' = [pc EXCEPT ![p] = "locked"]
     ELSE lock' = lock /\ pc' = [pc EXCEPT ![p] = "refused"]      \* "Approve in progress", exit 1
  /\ overlap' = (overlap \/ (lock = 0 /\ \E q \in Procs \ {p} : Inside(q)))
  /\ UNCHANGED <<fe, wrote>>

Write(p, from, to) ==
  /\ Step(p, from, to)
  /\ wrote' = wrote \cup {p}
  /\ UNCHANGED <<fe, lock, overlap>>

OpenHistory(p) == IF fe[p] = "doapprove" THEN Write(p, "locked", "hist")
                  ELSE Step(p, "locked", "hist") /\ UNCHANGED <<fe, lock, wrote, overlap>>
Session(p)     == Write(p, "hist", "session")          \* logs + dialogue with the device
WriteStatus(p) == IF fe[p] = "doapprove" THEN Write(p, "session", "status")
                  ELSE Step(p, "session", "status") /\ UNCHANGED <<fe, lock, wrote, overlap>>
HistEnd(p)     == Step(p, "status", "histend") /\ UNCHANGED <<fe, lock, wrote, overlap>>

\* process ends: the kernel releases the flock
Exit(p) ==
  /\ pc[p] \in {"histend", "refused"}
  /\ pc' = [pc EXCEPT ![p] = "done"]
  /\ lock' = IF lock = p THEN 0 ELSE lock
  /\ UNCHANGED <<fe, wrote, overlap>>

Kill(p) ==
  /\ pc[p] \notin {"done", "dead"}
  /\ pc' = [pc EXCEPT ![p] = "dead"]
  /\ lock' = IF lock = p THEN 0 ELSE lock
  /\ UNCHANGED <<fe, wrote, overlap>>

Next == \E p \in Procs :
  ReadConfig(p) \/ TryLock(p) \/ OpenHistory(p) \/ Session(p) \/ WriteStatus(p) \/ HistEnd(p) \/ Exit(p) \/ Kill(p)

Spec == Init /\ [][Next]_vars

NoOverlap          == Cardinality({p \in Procs : Inside(p)}) <= 1 /\ ~overlap
LoserWritesNothing == \A p \in Procs : pc[p] = "refused" => p \notin wrote
HolderOnly         == \A p \in Procs : Inside(p) => lock = p
LockNotStuck       == lock # 0 => Inside(lock)
=============================================================================
