SPECIFICATION Spec
CONSTANTS
  Procs = {1, 2, 3}
INVARIANTS NoOverlap LoserWritesNothing HolderOnly LockNotStuck
CHECK_DEADLOCK FALSE
