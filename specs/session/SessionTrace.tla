---------------------------- MODULE SessionTrace ----------------------------
(* Validates what the device simulators recorded during real sessions of    *)
(* drc / do-approve.  One trace:  Init(par) ; Recv* ; End(outcome).          *)
(* The specification is environment (the device side's classification of    *)
(* every received line / request, the injected fault) and property monitor  *)
(* (C06, C09, C11 of Session.tla evaluated on the observed counters).       *)
EXTENDS SessionProps, Sequences, TLC, Json, IOUtils

VARIABLES l, i0,
          chg,        \* change commands received so far
          sav,        \* save / commit requests received so far
          fseen,      \* a fault was injected into a received line
          ftext, fclass, fk,
          pf,         \* change / save commands received after the fault (clean-up excluded)
          half1,      \* the faulted line was the first half of a joined transmission
          nconf,      \* configure terminal / end lines received so far
          fconf       \* ... when the fault struck

tvars == <<l, i0, chg, sav, fseen, ftext, fclass, fk, pf, half1, nconf, fconf>>

Trace  == ndJsonDeserialize(IOEnv.TRACE)
Ev     == Trace[l + 1]
LastEv == Trace[l]
I0     == Trace[i0]
P      == I0.par

TInit ==
  /\ l = 1 /\ i0 = 1 /\ Trace[1].ev = "Init"
  /\ chg = 0 /\ sav = 0 /\ fseen = FALSE /\ ftext = "" /\ fclass = "" /\ fk = "" /\ pf = 0 /\ half1 = FALSE
  /\ nconf = 0 /\ fconf = 0

\* the second half of a \N-joined entry is already on the wire when the first half is rejected
IsJoined2(e) == e.i \in {I0.joined2[k] : k \in DOMAIN I0.joined2}

TNext ==
  /\ l < Len(Trace)
  /\ l' = l + 1
  /\ CASE Ev.ev = "Init" ->
            /\ i0' = l + 1 /\ chg' = 0 /\ sav' = 0 /\ fseen' = FALSE /\ ftext' = "" /\ fclass' = ""
            /\ fk' = "" /\ pf' = 0 /\ half1' = FALSE /\ nconf' = 0 /\ fconf' = 0
       [] Ev.ev = "Recv" ->
            /\ i0' = i0
            /\ chg' = IF Ev.class = "change" THEN chg + 1 ELSE chg
            /\ sav' = IF Ev.class = "save" THEN sav + 1 ELSE sav
            /\ fseen' = (fseen \/ Ev.fault # "")
            /\ ftext' = IF ~fseen /\ Ev.fault # "" THEN Ev.line ELSE ftext
            /\ fclass' = IF ~fseen /\ Ev.fault # "" THEN Ev.class ELSE fclass
            /\ fk' = IF ~fseen /\ Ev.fault # "" THEN Ev.fault ELSE fk
            /\ nconf' = IF Ev.class = "confmode" THEN nconf + 1 ELSE nconf
            /\ fconf' = IF ~fseen /\ Ev.fault # "" THEN nconf ELSE fconf
            /\ half1' = IF ~fseen /\ Ev.fault # "" THEN (Ev.i + 1) \in {I0.joined2[k] : k \in DOMAIN I0.joined2} ELSE half1
            \* a request that itself hits the dead device (repeated by the HTTP client) was not delivered
            /\ pf' = IF fseen /\ Ev.fault = "" /\ Ev.class \in {"change", "save"} /\ ~(half1 /\ IsJoined2(Ev) /\ pf = 0 /\ Ev.i = LastEv.i + 1)
                     THEN pf + 1 ELSE pf
       [] OTHER -> UNCHANGED <<i0, chg, sav, fseen, ftext, fclass, fk, pf, half1, nconf, fconf>>

TSpec == TInit /\ [][TNext]_tvars

-----------------------------------------------------------------------------
\* Known finding 15: replies to commands sent with console.SendCmd and free-form read
\* commands are never inspected; a rejection there is not noticed.
Unchecked ==
  [asa   |-> {"sh pager", "terminal pager 0", "sh term", "sh ver", "terminal width 511"},
   ios   |-> {"term len 0", "term width 512", "sh ver", "configure terminal", "no logging console", "line vty 0 15",
              "logging synchronous level all", "ip subnet-zero", "ip classless", "end"},
   linux |-> {"PS1=router#", "uname -r", "uname -m", "grep 'NetSPoC' /etc/issue"},
   panos |-> {}, nsx |-> {}]
KF_Unchecked ==
  /\ fk \in {"reject", "garbage", "warnreject"}
  /\ \/ ftext \in Unchecked[P.type]
     \* ASA: the first `configure terminal` / `end` pair belongs to setTerminal (SendCmd)
     \/ (P.type = "asa" /\ ftext \in {"configure terminal", "end"} /\ fconf < 2)

\* Known finding: NSX signals failure by the HTTP status only; the body of a 200 reply to a change request
\* (PUT / PATCH / POST / DELETE) is never inspected, a malformed reply there is not noticed
KF_NsxBody == P.type = "nsx" /\ fk = "malformed" /\ fclass = "change"
KF09 == IF KF_Unchecked THEN "UncheckedSendCmd" ELSE IF KF_NsxBody THEN "NsxReplyBodyIgnored" ELSE ""

\* Known finding 1: linux.State.GetErrUnmanaged always returns nil, the missing marker in
\* /etc/issue is recorded but never reported (an expected output of the suite pins it)
KF_LinuxMarker == P.type = "linux" /\ P.marker = "absent" /\ P.nameOK

Chk(ok, tag, detail, kf) == ok \/ PrintT(<<"VERR", LastEv.t, l, tag, detail, kf>>)

AtEnd == LastEv.ev = "End"
E == LastEv

Mon ==
  /\ Chk(~(LastEv.ev = "Recv" /\ LastEv.class = "change" /\ LastEv.foreign), "C07",
         "changing request addresses an object without the Netspoc prefix: " \o (IF LastEv.ev = "Recv" THEN LastEv.line ELSE ""), "")
  /\ Chk(AtEnd => C06(P, chg + sav, E.saved, E.rc, E.diag), "C06", "wrong, unmanaged or passive device was changed or no diagnostic",
         IF KF_LinuxMarker THEN "LinuxMarkerIgnored" ELSE "")
  /\ Chk(AtEnd /\ P.verb = "approve" /\ ~Bad(P) /\ ~fseen => E.rc = 0 /\ (P.n > 0 => chg > 0),
         "C06", "approve of a correct, managed, active device did not work normally", "")
  /\ Chk(AtEnd => C11(P, chg + sav, E.saved) /\ (P.verb = "compare" => E.devChanges = 0), "C11", "compare changed the device", "")
  /\ Chk(AtEnd => C09stop(P, fseen, pf, E.saved /\ fclass # "job" /\ fk # "late", E.rc, E.status, E.histEnd),
         "C09", "fault not handled: " \o fk \o " at " \o ftext, KF09)
  /\ Chk(AtEnd => C09ok(P, E.status, chg, E.devChanges, E.saved, fseen),
         "C09", "OK recorded although not everything was accepted and saved", KF09)
  /\ Chk(AtEnd /\ P.fe = "doapprove" /\ ~fseen /\ E.rc = 0 => E.histEnd = "OK", "C09", "history END does not match exit status", "")
  /\ Chk(AtEnd => (P.type = "ios" /\ E.rc = 0 => ~E.reloadPending), "C15", "reload left pending after a successful run", "")

Accepted == TLCGet("stats").diameter = Len(Trace)
=============================================================================
