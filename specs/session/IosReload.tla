----------------------------- MODULE IosReload -----------------------------
(***************************************************************************)
(* The apply phase of an IOS approve: changes run under `reload in N`,     *)
(* asynchronous reload banners may garble the echo of any command, the     *)
(* one-minute warning makes the tool re-arm the reload.                    *)
(*                                                                         *)
(* An entry of the change script is one transmission of one or two lines.  *)
(* ban[k] is the banner the device prints while it echoes line k.          *)
(***************************************************************************)
EXTENDS Integers, Sequences, FiniteSets, TLC

CONSTANTS MaxEntries

Forms == {"bare", "prompt_before", "prompt_after"}
Kinds == {"2:00", "1:00"}
NoBan == [form |-> "", kind |-> ""]

VARIABLES script,   \* Seq of entry sizes (1 or 2 lines)
          ban,      \* line number -> banner
          pc, e,    \* tool: program counter, index of the next entry
          armed,    \* device: a reload is scheduled
          due,      \* tool: a one-minute warning was seen in the current transmission
          lost,     \* a one-minute warning was seen and never answered by a re-arm
          sentUnarmed, saved, cancelled
vars == <<script, ban, pc, e, armed, due, lost, sentUnarmed, saved, cancelled>>

NLines(s) == IF s = <<>> THEN 0 ELSE LET f[i \in 0..Len(s)] == IF i = 0 THEN 0 ELSE f[i - 1] + s[i] IN f[Len(s)]
FirstLine(s, k) == 1 + NLines(SubSeq(s, 1, k - 1))

Init ==
  /\ script \in UNION {[1..n -> {1, 2}] : n \in 1..MaxEntries}
  /\ ban \in {b \in [1..NLines(script) -> {NoBan} \cup [form : Forms, kind : Kinds]] :
                Cardinality({k \in DOMAIN b : b[k] # NoBan}) <= 2}
  /\ pc = "arm" /\ e = 1 /\ armed = FALSE /\ due = FALSE /\ lost = FALSE
  /\ sentUnarmed = FALSE /\ saved = FALSE /\ cancelled = FALSE

Arm == pc = "arm" /\ armed' = TRUE /\ pc' = "send"
       /\ UNCHANGED <<script, ban, e, due, lost, sentUnarmed, saved, cancelled>>

\* one transmission: all lines of the entry; every one-minute warning in any of them counts
Send ==
  /\ pc = "send" /\ e <= Len(script)
  /\ LET lines == FirstLine(script, e)..(FirstLine(script, e) + script[e] - 1) IN
       /\ due' = \E k \in lines : ban[k].kind = "1:00"
       /\ sentUnarmed' = (sentUnarmed \/ ~armed)
  /\ pc' = "after"
  /\ UNCHANGED <<script, ban, e, armed, lost, saved, cancelled>>

After ==
  /\ pc = "after"
  /\ IF due THEN armed' = TRUE /\ due' = FALSE       \* do reload in N
     ELSE UNCHANGED <<armed, due>>
  /\ e' = e + 1 /\ pc' = "send"
  /\ UNCHANGED <<script, ban, lost, sentUnarmed, saved, cancelled>>

End == pc = "send" /\ e > Len(script) /\ pc' = "cancel"
       /\ UNCHANGED <<script, ban, e, armed, due, lost, sentUnarmed, saved, cancelled>>
Cancel == pc = "cancel" /\ armed' = FALSE /\ cancelled' = TRUE /\ pc' = "save"
          /\ UNCHANGED <<script, ban, e, due, lost, sentUnarmed, saved>>
Save == pc = "save" /\ saved' = TRUE /\ pc' = "done"
        /\ UNCHANGED <<script, ban, e, armed, due, lost, sentUnarmed, cancelled>>

Next == Arm \/ Send \/ After \/ End \/ Cancel \/ Save
Spec == Init /\ [][Next]_vars

Guarded       == ~sentUnarmed
SaveAfterCancel == saved => cancelled /\ ~armed
NoPending     == pc = "done" => ~armed
RearmAnswered == pc = "send" => ~due
=============================================================================
