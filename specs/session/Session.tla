------------------------------ MODULE Session ------------------------------
(***************************************************************************)
(* One run of the executor (drc / do-approve  approve | compare) against   *)
(* one device, at the granularity of dialogue phases, with at most one     *)
(* device-side fault.  The tool part is the INTENDED protocol; TLC checks  *)
(* that it satisfies C06, C09, C11 for every scenario, and the scenario    *)
(* space enumerated here is what the harness replays against the real      *)
(* binaries (SessionTrace.tla validates what the simulators recorded).     *)
(***************************************************************************)
EXTENDS Integers, Sequences, FiniteSets, TLC, SessionProps

CONSTANTS MaxN      \* maximal number of pending change commands

Types     == {"asa", "ios", "linux", "panos", "nsx"}
Frontends == {"drc", "doapprove"}
Verbs     == {"approve", "compare"}
\* "partial": PAN-OS with two vsys of which only the second carries the marker (as bad as "absent")
Markers   == {"present", "absent", "unconfigured", "partial"}
NoMarker  == {"absent", "partial"}
\* local state of a PAN-OS HA member; everything but "active" (and "off" = no HA) must be left alone
HAStates  == {"off", "active", "passive", "suspended"}
NotActive == {"passive", "suspended"}
FaultKinds == {"none", "reject", "garbage", "stall", "close"}
\* phases of the dialogue in order
Phases == <<"login", "setup", "namecheck", "fetch", "gate", "arm", "apply", "disarm", "save", "close", "end">>
PhaseIdx(p) == CHOOSE i \in DOMAIN Phases : Phases[i] = p

VARIABLES par,       \* scenario parameters
          ph,        \* current phase
          nsent,     \* change commands sent so far
          naccepted, \* ... accepted by the device
          armed,     \* IOS: reload scheduled
          saved,     \* save / commit confirmed by the device
          noticed,   \* the tool has noticed the fault
          postFault, \* change commands sent after the fault was noticed
          exitc, status, histEnd, diag
vars == <<par, ph, nsent, naccepted, armed, saved, noticed, postFault, exitc, status, histEnd, diag>>

Params ==
  [type : Types, fe : Frontends, verb : Verbs, nameOK : BOOLEAN, marker : Markers, ha : HAStates,
   n : 0..MaxN, fphase : {"login", "setup", "namecheck", "fetch", "arm", "apply", "disarm", "save"},
   fidx : 1..MaxN, fkind : FaultKinds]

WellFormed(p) ==
  /\ (p.ha # "off" => p.type = "panos")
  /\ (p.type = "nsx" => p.marker = "unconfigured" /\ p.nameOK)    \* NSX has neither check
  /\ (p.marker = "partial" => p.type = "panos")
  /\ (p.fphase \in {"arm", "disarm"} => p.type = "ios")
  /\ (p.fphase = "apply" => p.fidx <= p.n) /\ (p.fphase # "apply" => p.fidx = 1)
  /\ (p.fkind = "none" => p.fphase = "login")

Init ==
  /\ par \in {p \in Params : WellFormed(p)}
  /\ ph = "login" /\ nsent = 0 /\ naccepted = 0 /\ armed = FALSE /\ saved = FALSE
  /\ noticed = FALSE /\ postFault = 0 /\ exitc = -1 /\ status = "" /\ histEnd = "" /\ diag = FALSE

FaultHere(p) == par.fkind # "none" /\ par.fphase = p

Goto(p) == ph' = p

Finish(code, withDiag) ==
  /\ ph' = "end"
  /\ exitc' = code
  /\ diag' = withDiag
  /\ status' = IF par.fe # "doapprove" THEN ""
               ELSE IF par.verb = "approve" THEN (IF code = 0 THEN "OK" ELSE "FAILED")
               ELSE (IF code # 0 \/ par.n > 0 THEN "DIFF" ELSE "UPTODATE")
  /\ histEnd' = IF par.fe # "doapprove" THEN "" ELSE IF code = 0 THEN "OK" ELSE "FAILED"

\* abort path: session clean-up only (IOS: leave config mode, cancel the reload)
Abort ==
  /\ noticed' = TRUE
  /\ armed' = FALSE
  /\ Finish(1, TRUE)
  /\ UNCHANGED <<par, nsent, naccepted, saved, postFault>>

Advance(next) ==
  /\ Goto(next)
  /\ UNCHANGED <<par, nsent, naccepted, armed, saved, noticed, postFault, exitc, status, histEnd, diag>>

Login     == ph = "login" /\ IF FaultHere("login") THEN Abort ELSE Advance("setup")
Setup     == ph = "setup" /\ IF FaultHere("setup") THEN Abort ELSE Advance("namecheck")
NameCheck == ph = "namecheck" /\ IF FaultHere("namecheck") \/ ~par.nameOK \/ par.ha \in NotActive THEN Abort
                                 ELSE Advance("fetch")
Fetch     == ph = "fetch" /\ IF FaultHere("fetch") THEN Abort ELSE Advance("gate")

\* the gate: compare never applies; approve refuses an unmanaged device; nothing to do without changes
Gate ==
  /\ ph = "gate"
  /\ IF par.verb = "compare"
     THEN Finish(0, par.marker \in NoMarker) /\ UNCHANGED <<par, nsent, naccepted, armed, saved, noticed, postFault>>
     ELSE IF par.marker \in NoMarker THEN Abort
     ELSE IF par.n = 0 THEN Finish(0, FALSE) /\ UNCHANGED <<par, nsent, naccepted, armed, saved, noticed, postFault>>
     ELSE Advance(IF par.type = "ios" THEN "arm" ELSE "apply")

Arm ==
  /\ ph = "arm"
  /\ IF FaultHere("arm") THEN Abort
     ELSE /\ armed' = TRUE /\ Goto("apply")
          /\ UNCHANGED <<par, nsent, naccepted, saved, noticed, postFault, exitc, status, histEnd, diag>>

\* one change command; a faulty one is not accepted and stops the run
Apply ==
  /\ ph = "apply"
  /\ IF nsent = par.n THEN Advance(IF par.type = "ios" THEN "disarm" ELSE "save")
     ELSE IF FaultHere("apply") /\ par.fidx = nsent + 1
          THEN /\ nsent' = nsent + 1 /\ noticed' = TRUE /\ armed' = FALSE
               /\ Finish(1, TRUE) /\ UNCHANGED <<par, naccepted, saved, postFault>>
          ELSE /\ nsent' = nsent + 1 /\ naccepted' = naccepted + 1
               /\ UNCHANGED <<par, ph, armed, saved, noticed, postFault, exitc, status, histEnd, diag>>

Disarm ==
  /\ ph = "disarm"
  /\ IF FaultHere("disarm") THEN Abort
     ELSE /\ armed' = FALSE /\ Goto("save")
          /\ UNCHANGED <<par, nsent, naccepted, saved, noticed, postFault, exitc, status, histEnd, diag>>

Save ==
  /\ ph = "save"
  /\ IF FaultHere("save") \/ par.type \in {"linux", "nsx"}     \* no save step on Linux / NSX
     THEN IF FaultHere("save") /\ par.type \notin {"linux", "nsx"} THEN Abort
          ELSE Finish(0, FALSE) /\ UNCHANGED <<par, nsent, naccepted, armed, saved, noticed, postFault>>
     ELSE /\ saved' = TRUE /\ Finish(0, FALSE)
          /\ UNCHANGED <<par, nsent, naccepted, armed, noticed, postFault>>

Next == Login \/ Setup \/ NameCheck \/ Fetch \/ Gate \/ Arm \/ Apply \/ Disarm \/ Save
Spec == Init /\ [][Next]_vars

-----------------------------------------------------------------------------
InvC06 == ph = "end" => C06(par, naccepted, saved, exitc, diag)
InvC11 == C11(par, nsent, saved)
InvC09 == ph = "end" => /\ C09stop(par, noticed, postFault, saved, exitc, status, histEnd)
                        /\ C09ok(par, status, nsent, naccepted, saved, noticed)
InvGuard == (par.type = "ios" /\ ph = "apply" /\ nsent > 0) => armed     \* C15, design level
InvNoPending == (ph = "end" /\ exitc = 0) => ~armed
=============================================================================
