SPECIFICATION Spec
CONSTANTS MaxN = 2
INVARIANTS InvC06 InvC11 InvC09 InvGuard InvNoPending
CHECK_DEADLOCK FALSE
