----------------------------- MODULE SessionGen -----------------------------
(* Scenario enumeration for the session properties: every fault-free scenario of Session.tla *)
(* is printed as JSON; the harness crosses them with every line / request position of the    *)
(* real dialogue and every fault kind.                                                       *)
EXTENDS Session, Json
GInit == Init /\ par.fkind = "none"
GNext == UNCHANGED vars
Out == PrintT(<<"VOUT", ToJson(par)>>)
=============================================================================
