---------------------------- MODULE SessionProps ----------------------------
(* C06, C09, C11 as predicates over (scenario parameters, observed counters): shared by the   *)
(* design-level model (Session.tla) and by the validation of recorded sessions                *)
(* (SessionTrace.tla).                                                                        *)
EXTENDS Integers

\* C06: the device must not be changed
Bad(p) == ~p.nameOK \/ p.marker \in {"absent", "partial"} \/ p.ha \in {"passive", "suspended"}

(* The properties, as predicates over (parameters, observed counters) so that the trace   *)
(* specification can evaluate them on what the simulators recorded.                        *)

\* C06
C06(p, changes, sv, code, dg) ==
  (p.verb = "approve" /\ Bad(p)) => (changes = 0 /\ ~sv /\ code # 0 /\ dg)
\* C11
C11(p, changes, sv) == p.verb = "compare" => (changes = 0 /\ ~sv)
\* C09, first half: a noticed fault stops the run and is reported
C09stop(p, faultSeen, pf, sv, code, st, he) ==
  faultSeen => /\ pf = 0 /\ ~sv /\ code # 0
               /\ (p.fe = "doapprove" => st = (IF p.verb = "approve" THEN "FAILED" ELSE "DIFF") /\ he = "FAILED")
\* C09, second half: OK only if everything was accepted and the save confirmed
C09ok(p, st, sent, acc, sv, faultSeen) ==
  (st = "OK") => (~faultSeen /\ acc = sent /\ (sent > 0 /\ p.type \notin {"linux", "nsx"} => sv))

=============================================================================
