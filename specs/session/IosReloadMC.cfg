SPECIFICATION Spec
CONSTANTS
  MaxEntries = 3
INVARIANTS Guarded SaveAfterCancel NoPending RearmAnswered
CHECK_DEADLOCK FALSE
