--------------------------- MODULE IosReloadTrace ---------------------------
(* Validates the simulator transcript of a real IOS approve with reload     *)
(* banners.  Init carries the change lines of the banner-free run and the   *)
(* injected banners; Recv every received line; End the outcome.             *)
EXTENDS Integers, Sequences, FiniteSets, TLC, Json, IOUtils

VARIABLES l, i0, armed, dlg, got, due, dueAt, saved, cancelled, bad
tvars == <<l, i0, armed, dlg, got, due, dueAt, saved, cancelled, bad>>

Trace  == ndJsonDeserialize(IOEnv.TRACE)
Ev     == Trace[l + 1]
LastEv == Trace[l]
I0     == Trace[i0]

Prepare == {"no logging console", "line vty 0 15", "logging synchronous level all", "ip subnet-zero", "ip classless"}
\* banners are attached to script lines by their text (a re-arm dialogue shifts line indexes)
BannerKindAt(e) == LET s == {k \in DOMAIN I0.banners : I0.banners[k].text = e.line}
                   IN IF s = {} \/ e.class # "change" THEN "" ELSE I0.banners[CHOOSE k \in s : TRUE].kind

TInit == /\ l = 1 /\ i0 = 1 /\ Trace[1].ev = "Init"
         /\ armed = FALSE /\ dlg = FALSE /\ got = <<>> /\ due = FALSE /\ dueAt = 0
         /\ saved = FALSE /\ cancelled = FALSE /\ bad = ""

Flag(msg) == IF bad = "" THEN msg ELSE bad
IsScript(e) == e.class = "change" /\ e.line \notin Prepare /\ e.line # "" /\ ~(e.line \in {"do reload in 2"})

TNext ==
  /\ l < Len(Trace)
  /\ l' = l + 1
  /\ CASE Ev.ev = "Init" ->
            /\ i0' = l + 1 /\ armed' = FALSE /\ dlg' = FALSE /\ got' = <<>> /\ due' = FALSE /\ dueAt' = 0
            /\ saved' = FALSE /\ cancelled' = FALSE /\ bad' = ""
       [] Ev.ev = "Recv" ->
            /\ i0' = i0
            \* the reload is armed when the confirm dialogue of `reload in` is complete
            /\ dlg' = ((Ev.class = "guard" /\ (Ev.line = "reload in 2" \/ Ev.line = "do reload in 2"))
                        \/ (dlg /\ Ev.class = "dialog" /\ Ev.line # ""))
            /\ armed' = IF dlg /\ Ev.class = "dialog" /\ Ev.line = "" THEN TRUE
                        ELSE IF Ev.class = "guard" /\ Ev.line = "reload cancel" THEN FALSE ELSE armed
            /\ cancelled' = (cancelled \/ (Ev.class = "guard" /\ Ev.line = "reload cancel"))
            /\ got' = IF IsScript(Ev) THEN Append(got, Ev.line) ELSE got
            /\ saved' = (saved \/ Ev.class = "save")
            \* a one-minute warning garbled the echo of this line: a re-arm is due
            /\ due' = IF BannerKindAt(Ev) = "1:00" THEN TRUE
                      ELSE IF Ev.class = "guard" /\ Ev.line = "do reload in 2" THEN FALSE ELSE due
            /\ dueAt' = IF BannerKindAt(Ev) = "1:00" /\ ~due THEN Ev.i ELSE dueAt
            /\ bad' = CASE IsScript(Ev) /\ ~armed -> Flag("change command sent without a scheduled reload")
                        [] Ev.class = "save" /\ (armed \/ ~cancelled) -> Flag("write memory before the reload was cancelled")
                        \* the re-arm must come before the next transmission: the only script line that may
                        \* follow the garbled one directly is the second half of the same joined entry
                        [] due /\ (IsScript(Ev) \/ (Ev.class = "confmode" /\ Ev.line = "end")) /\ ~(Ev.i = dueAt + 1 /\ Ev.i \in {I0.joined2[k] : k \in DOMAIN I0.joined2})
                             -> Flag("one-minute warning not answered by a re-arm before the next command")
                        [] OTHER -> bad
       [] OTHER -> UNCHANGED <<i0, armed, dlg, got, due, dueAt, saved, cancelled, bad>>

TSpec == TInit /\ [][TNext]_tvars

\* Known finding: a banner directly before or after the echo of the FIRST line of a two-line
\* transmission: the tool waits for `[#] ?$` / tries another prompt and thereby consumes the
\* reply to the second line; the run then times out.
KF_FirstHalfAdjacent == \E k \in DOMAIN I0.banners : I0.banners[k].firsthalf /\ I0.banners[k].adjacent

Chk(ok, tag, detail, kf) == ok \/ PrintT(<<"VERR", LastEv.t, l, tag, detail, kf>>)
AtEnd == LastEv.ev = "End"
Mon ==
  /\ Chk(AtEnd => bad = "", "C15", bad, IF KF_FirstHalfAdjacent THEN "BannerNextToFirstHalf" ELSE "")
  /\ Chk(AtEnd => LastEv.rc = 0, "C15", "a reload banner changed the outcome of the run (exit status)",
         IF KF_FirstHalfAdjacent THEN "BannerNextToFirstHalf" ELSE "")
  /\ Chk(AtEnd => got = I0.script, "C15", "a reload banner changed the commands delivered to the device",
         IF KF_FirstHalfAdjacent THEN "BannerNextToFirstHalf" ELSE "")
  /\ Chk(AtEnd /\ LastEv.rc = 0 => (~LastEv.reloadPending /\ saved /\ LastEv.saved), "C15", "reload left pending or configuration not written after a successful run", "")
Accepted == TLCGet("stats").diameter = Len(Trace)
=============================================================================
