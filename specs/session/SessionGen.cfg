INIT GInit
NEXT GNext
CONSTANTS MaxN = 1
INVARIANTS Out
CHECK_DEADLOCK FALSE
