"""PAN-OS dialect: abstract vsys configuration <-> XML, cmdparse of the XML-API commands the tool
prints (URL-unescaped query strings) and the replica of specs/dev/Panos.tla."""
import copy, re
import xml.etree.ElementTree as ET
from xml.sax.saxutils import escape
from .common import Broken

ADDRNAME = {"a1": "IP_10.1.1.1", "a2": "IP_10.1.1.2", "a3": "NET_10.1.2.0_24", "a6": "IP_2001_db8_1__1", "a9": "IP_10.9.9.9"}
RADDRNAME = {v: k for k, v in ADDRNAME.items()}
SVCNAME = {"s80": "tcp 80", "s53": "udp 53", "s22": "tcp 22"}
RSVCNAME = {v: k for k, v in SVCNAME.items()}


def aname(m):
    return ADDRNAME.get(m, m)


def sname(m):
    return SVCNAME.get(m, m)


def members(l, f):
    return "".join("<member>%s</member>" % escape(f(m)) for m in l)


# field `extra` of an abstract rule: ONE further attribute that deviates from the default rule
# ("x": an element the tool does not know; the others: elements it compares one by one)
RULE_DEFAULT = {"from": "z1", "to": "z2", "application": "any", "rule-type": "interzone", "log-start": "", "log-end": "",
                "log-setting": "", "tag": ""}
EXTRA = {"x": ("tag", "x"), "z3": ("to", "z3"), "f3": ("from", "z3"), "le": ("log-end", "yes"), "ls": ("log-start", "yes"),
         "lset": ("log-setting", "fwd"), "rt": ("rule-type", "universal"), "app": ("application", "web-browsing")}


def rule_xml(r):
    at = dict(RULE_DEFAULT)
    if r["extra"]:
        k, v = EXTRA[r["extra"]]
        at[k] = v
    tail = "".join("<%s>%s</%s>" % (k, at[k], k) for k in ("log-start", "log-end", "log-setting") if at[k])
    if at["tag"]:
        tail += "<tag><member>%s</member></tag>" % at["tag"]
    if r.get("append"):
        tail += "<APPEND/>"
    return ('<entry name="%s"><action>%s</action><from><member>%s</member></from><to><member>%s</member></to>'
            "<source>%s</source><destination>%s</destination><service>%s</service>"
            "<application><member>%s</member></application><rule-type>%s</rule-type>%s</entry>" % (
                r["name"], r["action"], at["from"], at["to"], members(sorted(r["src"]), aname),
                members(sorted(r["dst"]), aname), members(sorted(r["svc"]), sname), at["application"], at["rule-type"], tail))


def merge_files(case):
    """(ipv6 text, raw text) of a merge case: complete configurations of their own."""
    pa = case["tgt"]["parts"]
    for c in (pa["c6"], pa["craw"]):        # an empty TLA+ function arrives as an empty JSON array
        for k in ("addrs", "groups", "svcs", "sgroups"):
            if c[k] == []:
                c[k] = {}
    v6 = render(pa["c6"], False) if pa["v6"] else None
    raw = None
    if pa["pre"] or pa["app"] or pa["craw"].get("v2", {}).get("rules"):
        c = copy.deepcopy(pa["craw"])
        napp = {r["name"] for r in pa["app"]}
        for r in c["rules"]:
            if r["name"] in napp:
                r["append"] = True
        raw = render(c, False)
    return v6, raw


def svc_xml(v):
    # "proto/port" or "proto/port/sp": the latter restricts the source port (an element nested in
    # <tcp>/<udp> that Netspoc never writes but a device may hold)
    proto, port, *sp = v.split("/")
    spx = "<source-port>1024-65535</source-port>" if sp else ""
    return "<protocol><%s><port>%s</port>%s</%s></protocol>" % (proto, port, spx, proto)


def norm(cfg):
    """an empty TLA+ function arrives as an empty JSON array (also inside the nested second vsys)"""
    for k in ("addrs", "groups", "svcs", "sgroups"):
        if cfg.get(k) == []:
            cfg[k] = {}
    if "v2" in cfg:
        norm(cfg["v2"])
    return cfg


def render(cfg, dev):
    norm(cfg)
    out = ['<config><devices><entry name="localhost.localdomain">']
    if dev:
        out.append("<deviceconfig><system><hostname>router</hostname></system></deviceconfig>")
    out.append("<vsys>")
    out += render_vsys("vsys1", cfg, dev)
    if "v2" in cfg:
        out += render_vsys("vsys2", cfg["v2"], dev)
    if dev and cfg.get("vsys2"):
        out.append('<entry name="vsys2"><display-name>other</display-name><address>'
                   '<entry name="IP_10.1.1.1"><ip-netmask>10.7.7.7/32</ip-netmask></entry></address></entry>')
    out.append("</vsys></entry></devices></config>")
    return "\n".join(out) + "\n"


def render_vsys(name, cfg, dev):
    out = ['<entry name="%s">' % name]
    if dev:
        out.append("<display-name>FW-managed-by-Netspoc</display-name>")
    out.append("<rulebase><security><rules>")
    out += [rule_xml(r) for r in cfg["rules"]]
    out.append("</rules></security></rulebase>")
    out.append("<address>" + "".join('<entry name="%s"><ip-netmask>%s</ip-netmask></entry>' % (aname(n), v)
                                     for n, v in sorted(cfg["addrs"].items())) + "</address>")
    out.append("<address-group>" + "".join('<entry name="%s"><static>%s</static></entry>' % (n, members(sorted(ms), aname))
                                           for n, ms in sorted(cfg["groups"].items())) + "</address-group>")
    out.append("<service>" + "".join('<entry name="%s">%s</entry>' % (sname(n), svc_xml(v))
                                     for n, v in sorted(cfg["svcs"].items())) + "</service>")
    out.append("<service-group>" + "".join('<entry name="%s"><members>%s</members></entry>' % (n, members(sorted(ms), sname))
                                           for n, ms in sorted(cfg["sgroups"].items())) + "</service-group>")
    out.append("</entry>")
    return out


# ------------------------------------------------------------------ cmdparse

XP = re.compile(r"^/config/devices/entry\[@name='[^']*'\]/vsys/entry\[@name='([^']*)'\]/(.*)$")


def ab_addr(n):
    return RADDRNAME.get(n, n)


def ab_svc(n):
    return RSVCNAME.get(n, n)


def mem(elem, f):
    root = ET.fromstring("<x>" + elem + "</x>")
    return sorted(f(m.text or "") for m in root.iter("member"))


def parse_rule_elem(name, elem):
    root = ET.fromstring("<x>" + elem + "</x>")

    def lst(tag, f):
        e = root.find(tag)
        return sorted(f(m.text or "") for m in e.findall("member")) if e is not None else []

    def one(tag):
        e = root.find(tag)
        if e is None:
            return RULE_DEFAULT[tag] if tag == "tag" else ""
        ms = e.findall("member")
        return (ms[0].text or "") if ms else (e.text or "")

    at = {k: one(k) for k in RULE_DEFAULT}
    dev = [k for k in RULE_DEFAULT if at[k] != RULE_DEFAULT[k]]
    extra = [x for x, (k, v) in EXTRA.items() if dev == [k] and at[k] == v]
    if dev and not extra:
        raise Broken("cmdparse: PAN-OS rule attributes outside the modelled values: %r" % {k: at[k] for k in dev})
    return {"name": name, "action": root.findtext("action") or "", "src": lst("source", ab_addr),
            "dst": lst("destination", ab_addr), "svc": lst("service", ab_svc), "extra": extra[0] if extra else ""}


def svc_val(elem):
    root = ET.fromstring("<x>" + elem + "</x>")
    p = root.find("protocol") if root.find("protocol") is not None else root.find("entry/protocol")
    if p is None:
        raise Broken("cmdparse: service element without protocol: " + elem)
    for proto in ("tcp", "udp"):
        e = p.find(proto)
        if e is not None:
            known = {"port", "source-port"}
            if any(c.tag not in known for c in e) or (e.find("source-port") is not None
                                                      and e.findtext("source-port") != "1024-65535"):
                raise Broken("cmdparse: unknown service element: " + elem)
            return "%s/%s%s" % (proto, e.findtext("port"), "/sp" if e.find("source-port") is not None else "")
    raise Broken("cmdparse: unknown service element: " + elem)


def addr_val(elem):
    root = ET.fromstring("<x>" + elem + "</x>")
    v = root.findtext("ip-netmask") or root.findtext("entry/ip-netmask")
    if v is None:
        raise Broken("cmdparse: unknown address element: " + elem)
    return v


def parse_cmd(line):
    kv = {}
    # the printed form is URL-unescaped: split on the known keys only
    m = re.match(r"^action=(\w+)&type=config&xpath=(.*?)(?:&element=(.*?))?(?:&where=(\w+)&dst=(.*))?$", line, re.S)
    if not m:
        raise Broken("cmdparse: command outside the known PAN-OS output dialect: " + line[:200])
    action, xpath, elem, where, dst = m.groups()
    mx = XP.match(xpath)
    if not mx:
        raise Broken("cmdparse: xpath outside a vsys: " + xpath)
    vsys, rest = mx.groups()
    e = {"vsys": vsys, "half": 0}

    def nm(s):
        k = re.match(r"^entry\[@name='(.*?)'\](.*)$", s)
        if not k:
            raise Broken("cmdparse: bad xpath tail: " + s)
        return k.group(1), k.group(2)

    if rest.startswith("rulebase/security/rules/"):
        name, tail = nm(rest[len("rulebase/security/rules/"):])
        fmap = {"/source": "src", "/destination": "dst", "/service": "svc"}
        if tail == "":
            if action == "set":
                return dict(e, ev="SetRule", rule=parse_rule_elem(name, elem))
            if action == "delete":
                return dict(e, ev="DelRule", name=name)
            if action == "move":
                if where != "before":
                    raise Broken("cmdparse: move other than `before`: " + line)
                return dict(e, ev="MoveRule", name=name, dst=dst)
        elif tail in fmap:
            f = fmap[tail]
            conv = ab_svc if f == "svc" else ab_addr
            if action == "set":
                return dict(e, ev="SetRuleList", name=name, f=f, members=mem(elem, conv))
            if action == "edit":
                return dict(e, ev="EditRuleList", name=name, f=f, members=mem(elem, conv))
        else:
            k = re.match(r"^(/source|/destination)/member\[text\(\)='(.*)'\]$", tail)
            if k and action == "delete":
                return dict(e, ev="DelRuleMember", name=name, f=fmap[k.group(1)], member=ab_addr(k.group(2)))
    for pfx, kind in (("address-group/", "group"), ("address/", "addr"), ("service-group/", "sgroup"), ("service/", "svc")):
        if rest.startswith(pfx):
            name, tail = nm(rest[len(pfx):])
            if kind == "addr":
                name = ab_addr(name)
                if tail == "" and action == "set":
                    return dict(e, ev="SetAddr", name=name, value=addr_val(elem))
                if tail == "" and action == "edit":
                    return dict(e, ev="EditAddr", name=name, value=addr_val(elem))
            if kind == "svc":
                name = ab_svc(name)
                if tail == "" and action == "set":
                    return dict(e, ev="SetSvc", name=name, value=svc_val(elem))
                if tail == "" and action == "edit":
                    return dict(e, ev="EditSvc", name=name, value=svc_val(elem))
            if kind == "group":
                if tail == "/static" and action == "set":
                    return dict(e, ev="SetGroup", name=name, members=mem(elem, ab_addr))
                k = re.match(r"^/static/member\[text\(\)='(.*)'\]$", tail)
                if k and action == "delete":
                    return dict(e, ev="DelGroupMember", name=name, member=ab_addr(k.group(1)))
            if kind == "sgroup" and tail == "/members" and action == "set":
                return dict(e, ev="SetSGroup", name=name, members=mem(elem, ab_svc))
            if tail == "" and action == "delete":
                return dict(e, ev="DelObj", kind=kind, name=name)
    raise Broken("cmdparse: command outside the known PAN-OS output dialect: " + line[:300])


def parse_script(text):
    """commands in order; a `Switch` event marks where the script turns to another vsys"""
    evs, cur = [], "vsys1"
    for ln in text.split("\n"):
        if not ln.strip():
            continue
        e = parse_cmd(ln)
        if e["vsys"] != cur:
            cur = e["vsys"]
            evs.append({"ev": "Switch", "vsys": cur, "half": 0})
        evs.append(e)
    return evs


# ------------------------------------------------------------------ replica of Panos.tla

class Replica:
    """vsys1 (and vsys2 if the configuration has one); `Switch` selects the vsys later events address"""

    def __init__(self, cfg):
        c = norm(copy.deepcopy(cfg))
        self.vs = {"vsys1": Vsys(c)}
        if "v2" in c:
            self.vs["vsys2"] = Vsys(c["v2"])
        self.cur = "vsys1"
        self.vsys2 = c.get("vsys2", False)

    def state(self):
        st = self.vs["vsys1"].state()
        st["vsys2"] = self.vsys2
        if "vsys2" in self.vs:
            st["v2"] = self.vs["vsys2"].state()
        return st

    def apply(self, e):
        if e["ev"] == "Switch":
            self.cur = e["vsys"]
            # a vsys the configuration does not have: commands land in an empty candidate (and are flagged by C07)
            self.vs.setdefault(self.cur, Vsys({"rules": [], "addrs": {}, "svcs": {}, "groups": {}, "sgroups": {}}))
            return
        if e["ev"] == "Resume":
            self.cur = "vsys1"
            return
        self.vs[self.cur].apply(e)


class Vsys:
    def __init__(self, cfg):
        c = copy.deepcopy(cfg)
        self.rules = [dict(r, src=sorted(r["src"]), dst=sorted(r["dst"]), svc=sorted(r["svc"])) for r in c["rules"]]
        self.addrs, self.svcs = c["addrs"], c["svcs"]
        self.groups = {n: sorted(m) for n, m in c["groups"].items()}
        self.sgroups = {n: sorted(m) for n, m in c["sgroups"].items()}

    def state(self):
        return {"rules": copy.deepcopy(self.rules), "addrs": dict(self.addrs), "svcs": dict(self.svcs),
                "groups": copy.deepcopy(self.groups), "sgroups": copy.deepcopy(self.sgroups)}

    def rule(self, n):
        for r in self.rules:
            if r["name"] == n:
                return r
        return None

    def addr_known(self, m):
        return m == "any" or m in self.addrs or m in self.groups

    def svc_known(self, m):
        return m in ("any", "application-default") or m in self.svcs or m in self.sgroups

    def addr_refd(self, m):
        return any(m in r["src"] or m in r["dst"] for r in self.rules) or any(m in g for g in self.groups.values())

    def svc_refd(self, m):
        return any(m in r["svc"] for r in self.rules) or any(m in g for g in self.sgroups.values())

    def apply(self, e):
        ev = e["ev"]
        if ev == "Resume":
            return
        if ev == "SetRule":
            r = e["rule"]
            if self.rule(r["name"]) or not all(self.addr_known(m) for m in r["src"] + r["dst"]) \
                    or not all(self.svc_known(m) for m in r["svc"]):
                return
            self.rules.append(copy.deepcopy(r))
        elif ev in ("SetRuleList", "EditRuleList"):
            r = self.rule(e["name"])
            if r is None:
                return
            known = self.svc_known if e["f"] == "svc" else self.addr_known
            if not all(known(m) for m in e["members"]):
                return
            if ev == "SetRuleList":
                r[e["f"]] = sorted(set(r[e["f"]]) | set(e["members"]))
            else:
                r[e["f"]] = sorted(e["members"])
        elif ev == "DelRuleMember":
            r = self.rule(e["name"])
            if r is not None and e["member"] in r[e["f"]]:
                r[e["f"]].remove(e["member"])
        elif ev == "DelRule":
            self.rules = [r for r in self.rules if r["name"] != e["name"]]
        elif ev == "MoveRule":
            r, d = self.rule(e["name"]), self.rule(e["dst"])
            if r is None or d is None or r is d:
                return
            self.rules.remove(r)
            self.rules.insert(self.rules.index(d), r)
        elif ev == "SetAddr":
            self.addrs[e["name"]] = e["value"]
        elif ev == "EditAddr":
            if e["name"] in self.addrs:
                self.addrs[e["name"]] = e["value"]
        elif ev == "SetSvc":
            self.svcs[e["name"]] = e["value"]
        elif ev == "EditSvc":
            if e["name"] in self.svcs:
                self.svcs[e["name"]] = e["value"]
        elif ev == "SetGroup":
            if all(m in self.addrs for m in e["members"]):
                self.groups[e["name"]] = sorted(set(self.groups.get(e["name"], [])) | set(e["members"]))
        elif ev == "DelGroupMember":
            g = self.groups.get(e["name"])
            if g is not None and e["member"] in g:
                g.remove(e["member"])
        elif ev == "SetSGroup":
            if all(m in self.svcs for m in e["members"]):
                self.sgroups[e["name"]] = sorted(set(self.sgroups.get(e["name"], [])) | set(e["members"]))
        elif ev == "DelObj":
            k, n = e["kind"], e["name"]
            store = {"addr": self.addrs, "group": self.groups, "svc": self.svcs, "sgroup": self.sgroups}[k]
            if n not in store:
                return
            if (k in ("addr", "group") and self.addr_refd(n)) or (k in ("svc", "sgroup") and self.svc_refd(n)):
                return
            del store[n]
        else:
            raise Broken("PAN-OS replica: unknown event " + ev)
