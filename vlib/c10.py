from . import devprops


def run(tier, replay=None):
    return devprops.run("C10", tier, replay)
