"""ASA VPN object graph: renderer, cmdparse and replica of specs/dev/AsaV.tla.

Objects are generic: key "kind|name" -> {kind, name, gen, lines:[{m, t, r}]} where m is "" for a
top-level command of the object and the sub-mode variant otherwise, t the text with referenced
names replaced by `$`, r the list of referenced keys."""
import copy, re
from .common import Broken

PREFIX = {"acl": "access-list", "gp": "group-policy", "user": "username", "pool": "ip local pool",
          "tg": "tunnel-group", "cm": "crypto ca certificate map", "tgm": "tunnel-group-map", "webvpn": "webvpn",
          "cmap": "crypto map", "ts": "crypto ipsec ikev1 transform-set", "dmap": "crypto dynamic-map",
          "prop": "crypto ipsec ikev2 ipsec-proposal"}
RPREFIX = sorted(((v, k) for k, v in PREFIX.items()), key=lambda x: -len(x[0]))
# sub-commands that reference another object: text prefix -> kind of the referenced object
SUBREF = [("vpn-filter value ", "acl"), ("split-tunnel-network-list value ", "acl"), ("address-pools value ", "pool"),
          ("default-group-policy ", "gp"), ("vpn-group-policy ", "gp")]
ORDER = ["acl", "pool", "ts", "prop", "cm", "gp", "tg", "user", "tgm", "webvpn", "dmap", "cmap", "cmi"]
# settings of a crypto map entry that reference another object: text prefix -> kind
CMREF = [("match address ", "acl"), ("set ikev1 transform-set ", "ts"), ("ipsec-isakmp dynamic ", "dmap"),
         ("set ikev2 ipsec-proposal ", "prop")]


def key(kind, name):
    return kind + "|" + name


def subst(t, r):
    for k in r:
        t = t.replace("$", k.split("|", 1)[1], 1)
    return t


def render(cfg, dev):
    out = []
    if dev:
        out += ["interface Ethernet0/0", " nameif inside", "!"]
    objs = cfg["objs"]
    for kind in ORDER:
        for k in sorted(k for k in objs if objs[k]["kind"] == kind):
            o = objs[k]
            if kind in ("cmap", "dmap"):       # top-level lines `crypto map NAME SEQ setting`
                for ln in sorted(o["lines"], key=lambda l: (int(l["m"]), l["t"])):
                    out.append("%s %s %s %s" % (PREFIX[kind], o["name"], ln["m"], subst(ln["t"], ln["r"])))
                continue
            if kind == "cmi":        # `crypto map NAME interface IF`
                for ln in o["lines"]:
                    out.append("crypto map %s interface %s" % (ln["r"][0].split("|", 1)[1], o["name"]))
                continue
            head = PREFIX[kind] + (" " + o["name"] if o["name"] else "")
            if kind == "prop":       # header line (also of an empty proposal), settings in its sub-mode "."
                out.append(head)
                out += [" " + subst(ln["t"], ln["r"]) for ln in sorted(o["lines"], key=lambda l: l["t"])]
                continue
            if kind == "tgm":        # `tunnel-group-map CERTMAP SEQ TG`: the rule's sequence number is the line's m
                for ln in sorted(o["lines"], key=lambda l: (l["m"], l["t"])):
                    out.append((head + " " + subst(ln["t"], ln["r"]).replace("#", ln["m"])).strip())
                continue
            for ln in o["lines"]:
                if ln["m"] == "":
                    out.append((head + " " + subst(ln["t"], ln["r"])).strip())
            for m in sorted({ln["m"] for ln in o["lines"] if ln["m"] != ""}):
                out.append(head + " " + m)
                for ln in o["lines"]:
                    if ln["m"] == m:
                        out.append(" " + subst(ln["t"], ln["r"]))
    return "\n".join(out) + "\n"


def merge_files(case):
    """(ipv6 text, raw text) of a merge case: settings for entry 1 of the Netspoc crypto map, a raw-only dynamic map"""
    pa = case["tgt"]["parts"]
    if pa["merged"]["objs"] == []:
        pa["merged"]["objs"] = {}
    lines = ["crypto map crypto-inside 1 set peer 10.9.9.1"]
    lines += ["crypto map crypto-inside 1 " + x for x in sorted(pa["rawlines"])]
    if pa["rawdyn"]:
        lines += ["crypto ipsec ikev1 transform-set Trans1 esp-3des esp-md5-hmac",
                  "crypto dynamic-map dynR 10 set pfs group21", "crypto dynamic-map dynR 10 set ikev1 transform-set Trans1",
                  "crypto dynamic-map dynR 20 set pfs group19",
                  "crypto map crypto-inside 65000 ipsec-isakmp dynamic dynR"]
    lines.append("crypto map crypto-inside interface inside")
    return None, "\n".join(lines) + "\n"


# ------------------------------------------------------------------ cmdparse

VARIANTS = {"gp": ["attributes"], "user": ["attributes"],
            "tg": ["general-attributes", "ipsec-attributes", "webvpn-attributes"]}


def split_top(line):
    """-> (kind, name, rest) of a top-level command"""
    for pfx, kind in RPREFIX:
        if line == pfx or line.startswith(pfx + " "):
            rest = line[len(pfx):].strip()
            if kind in ("tgm", "webvpn"):
                return kind, "", rest
            name, _, rest = rest.partition(" ")
            return kind, name, rest
    raise Broken("cmdparse: command outside the known ASA VPN output dialect: " + line)


def sub_refs(t):
    for pfx, kind in SUBREF:
        if t.startswith(pfx):
            name = t[len(pfx):].strip()
            return pfx + "$", [key(kind, name)]
    return t, []


def parse_script(text):
    evs = []
    mode = None            # (key, variant) as the TOOL believes; the device decides in the spec
    for line in text.split("\n"):
        if not line.strip():
            continue
        if "\\N " in line:
            raise Broken("cmdparse: joined command in VPN family: " + line)
        e = {"half": 0}
        no = line.startswith("no ")
        body = line[3:] if no else line
        if body == "exit":
            evs.append(dict(e, ev="Exit"))
            mode = None
            continue
        if body.startswith("clear configure "):
            kind, name, rest = split_top(body[len("clear configure "):])
            evs.append(dict(e, ev="Clear", k=key(kind, name)))
            mode = None
            continue
        top = None
        try:
            top = split_top(body)
        except Broken:
            top = None
        if top is None:
            # a sub-command of the open mode
            if mode is None:
                # sent outside any mode the tool opened: the device will judge it
                t, r = sub_refs(body)
                evs.append(dict(e, ev="SubNoLine" if no else "SubLine", tx=t, r=r))
                continue
            t, r = sub_refs(body)
            evs.append(dict(e, ev="SubNoLine" if no else "SubLine", tx=t, r=r))
            continue
        kind, name, rest = top
        k = key(kind, name)
        if kind in ("cmap", "dmap"):
            w = rest.split()
            if kind == "cmap" and w[0] == "interface":
                evs.append(dict(e, ev="TopNoLine" if no else "TopLine", k=key("cmi", w[1]), kind="cmi", name=w[1], m="",
                                tx="$ interface", r=[k]))
            else:
                t, r = " ".join(w[1:]), []
                for pfx, rk in CMREF:
                    if t.startswith(pfx):
                        t, r = pfx + "$", [key(rk, t[len(pfx):].strip())]
                        break
                evs.append(dict(e, ev="TopNoLine" if no else "TopLine", k=k, kind=kind, name=name, m=w[0], tx=t, r=r))
            mode = None
            continue
        if kind == "prop":
            if no:
                evs.append(dict(e, ev="Clear", k=k))
                mode = None
            else:
                evs.append(dict(e, ev="SubEnter", k=k, kind=kind, name=name, m="."))
                mode = (k, ".")
            continue
        if kind == "webvpn" and rest == "":
            evs.append(dict(e, ev="SubEnter", k=k, kind=kind, name=name, m=""))
            mode = (k, "")
            continue
        if kind == "cm":
            evs.append(dict(e, ev="SubEnter", k=k, kind=kind, name=name, m=rest))
            mode = (k, rest)
            continue
        if rest in VARIANTS.get(kind, []) and not no:
            evs.append(dict(e, ev="SubEnter", k=k, kind=kind, name=name, m=rest))
            mode = (k, rest)
            continue
        # top-level line of the object
        t, r = rest, []
        if kind == "acl":
            # `line N` only addresses the position; this family compares ACLs as sets of lines
            t = re.sub(r"^line \d+ ", "", t)
        tm = ""
        if kind == "tgm":
            w = rest.split()
            if w[0] == "default-group":
                t, r = "default-group $", [key("tg", w[1])]
            else:
                t, r, tm = "$ # $", [key("cm", w[0]), key("tg", w[2])], w[1]
        evs.append(dict(e, ev="TopNoLine" if no else "TopLine", k=k, kind=kind, name=name, m=tm, tx=t, r=r))
        mode = None
    return evs


# ------------------------------------------------------------------ replica of AsaV.tla

class Replica:
    def __init__(self, cfg):
        self.objs = copy.deepcopy(cfg["objs"])
        self.mode = None

    def state(self):
        out = {}
        for k, o in self.objs.items():
            out[k] = {"kind": o["kind"], "name": o["name"], "gen": "-DRC-" in o["name"],
                      "lines": sorted(o["lines"], key=lambda l: (l["m"], l["t"], l["r"]))}
        return {"objs": out}

    def refs_exist(self, r):
        return all(x in self.objs for x in r)

    def referenced(self, k):
        return any(k in ln["r"] for k2, o in self.objs.items() if k2 != k for ln in o["lines"])

    def homonym(self, kind):
        return self.mode is not None and kind == "webvpn" and self.objs[self.mode[0]]["kind"] == "gp" \
            and self.mode[1] == "attributes"

    def apply(self, e):
        ev = e["ev"]
        if ev in ("Exit", "Resume"):
            self.mode = None
        elif ev == "TopLine":
            bad = self.homonym(e["kind"]) or not self.refs_exist(e["r"])
            self.mode = None
            if bad:
                return
            o = self.objs.setdefault(e["k"], {"kind": e["kind"], "name": e["name"], "lines": []})
            ln = {"m": e["m"], "t": e["tx"], "r": list(e["r"])}
            if ln["r"] and (ln["m"] != "" or e["kind"] == "cmi"):      # single-valued setting
                o["lines"][:] = [x for x in o["lines"] if not (x["m"] == ln["m"] and x["t"] == ln["t"])]
            if ln not in o["lines"]:
                o["lines"].append(ln)
        elif ev == "TopNoLine":
            self.mode = None
            o = self.objs.get(e["k"])
            ln = {"m": e["m"], "t": e["tx"], "r": list(e["r"])}
            if o is None or ln not in o["lines"]:
                return
            if o["lines"] == [ln] and self.referenced(e["k"]):
                return
            o["lines"].remove(ln)
            if not o["lines"]:
                del self.objs[e["k"]]
        elif ev == "SubEnter":
            kind, k = e["kind"], e["k"]
            creates = kind in ("cm", "webvpn", "prop")
            has_top = k in self.objs and any(ln["m"] == "" for ln in self.objs[k]["lines"])
            if self.homonym(kind) or (not creates and not has_top):
                self.mode = None
                return
            self.objs.setdefault(k, {"kind": kind, "name": e["name"], "lines": []})
            self.mode = (k, e["m"])
        elif ev == "SubLine":
            if self.mode is None or not self.refs_exist(e["r"]):
                return
            ln = {"m": self.mode[1], "t": e["tx"], "r": list(e["r"])}
            lines = self.objs[self.mode[0]]["lines"]
            if ln["r"]:      # single-valued setting: the new value replaces the old one
                lines[:] = [x for x in lines if not (x["m"] == ln["m"] and x["t"] == ln["t"])]
            if ln not in lines:
                lines.append(ln)
        elif ev == "SubNoLine":
            if self.mode is None:
                return
            ln = {"m": self.mode[1], "t": e["tx"], "r": list(e["r"])}
            if ln in self.objs[self.mode[0]]["lines"]:
                self.objs[self.mode[0]]["lines"].remove(ln)
        elif ev == "Clear":
            self.mode = None
            if e["k"] in self.objs and not self.referenced(e["k"]):
                del self.objs[e["k"]]
        else:
            raise Broken("ASA VPN replica: unknown event " + ev)
