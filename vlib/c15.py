"""C15 - IOS changes run under a reload guard and survive its banners."""
import json, os, shutil
from concurrent.futures import ThreadPoolExecutor
from . import common as C
from . import session as S
from . import sessprops as SP

SPEC = os.path.join(C.SPECS, "session")
PREPARE = {"no logging console", "line vty 0 15", "logging synchronous level all", "ip subnet-zero", "ip classless"}


def is_script(x):
    return x.get("class") == "change" and x["line"] not in PREPARE and x["line"] != "do reload in 2"


def run(tier, replay_file=None):
    rep = C.Report("C15", tier, "model_checking")
    bins = C.build()
    root = C.sub("c15")
    mc = C.run_tlc(SPEC, "IosReload", "IosReloadMC.cfg", workers=4, timeout=600,
                   consts={"MaxEntries": 3 if tier == "quick" else 4})
    if mc.error or mc.rc != 0:
        raise C.Broken("IosReload.tla model check failed: %s" % (mc.error or mc.out[-1500:]))
    rep.add_states(mc)
    par = {"type": "ios", "fe": "drc", "verb": "approve", "nameOK": True, "marker": "present", "ha": "off", "n": 1}

    def session(banners, fe="drc", saveask=True):
        p = dict(par, fe=fe)
        simcfg, spoc = S.device_and_target("ios", True)
        home = S.make_world(root, "ios", spoc, timeout=2)
        sim = SP.sim_for(p, simcfg)
        sim["banners"] = banners
        sim["saveask"] = saveask
        r = S.run_session(bins, home, "ios", fe, "approve", sim)
        shutil.rmtree(home, ignore_errors=True)
        return r

    base = session([])
    if base["rc"] != 0:
        raise C.Broken("banner-free IOS approve failed: " + base["stderr"][-500:])
    lines = [x for x in base["transcript"] if "i" in x]
    script = [x for x in lines if is_script(x)]
    joined2 = SP.joined_second_halves(base["transcript"], "ios")
    if len(script) < 4 or not joined2:
        raise C.Broken("unexpected IOS change script: %r" % [x["line"] for x in script])

    first_halves = {x["line"] for x in script if x["i"] + 1 in joined2}

    def B(x, form, off, kind):
        """banner garbling the echo of script line x (identified by its text: a re-arm shifts indexes)"""
        return {"text": x["line"], "line": -1, "form": form, "offset": off, "kind": kind,
                "adjacent": form != "bare" or off in (0, len(x["line"])), "firsthalf": x["line"] in first_halves}

    if replay_file:
        scen = [json.load(open(replay_file))["scenario"]]
    else:
        scen = []
        for x in script:
            n = len(x["line"])
            offs = range(n + 1)
            for kind in ("2:00", "1:00"):
                for form in ("prompt_before", "prompt_after"):
                    scen.append({"banners": [B(x, form, 0, kind)]})
                for o in offs:
                    scen.append({"banners": [B(x, "bare", o, kind)]})
        # two banners in one run, also both halves of the joined entry
        pairs = [(a, b) for a in script for b in script if a["i"] < b["i"]]
        if tier == "quick":
            pairs = [p for p in pairs if p[1]["i"] in joined2 or p[0]["i"] + 1 == p[1]["i"]]
        for a, b in pairs:
            for ka in ("2:00", "1:00"):
                for kb in ("2:00", "1:00"):
                    scen.append({"banners": [B(a, "bare", len(a["line"]) // 2, ka), B(b, "prompt_after", 0, kb)]})
        for s in scen:
            s["fe"] = "drc"
        # do-approve front-end and the variant without the "Save?" question on a sample
        extra = [dict(s, fe="doapprove") for s in scen[::7]] + [dict(s, saveask=False) for s in scen[3::11]]
        scen += extra

    def runit(a):
        i, s = a
        r = session(s["banners"], s.get("fe", "drc"), s.get("saveask", True))
        tr = [{"t": i + 1, "ev": "Init", "script": [x["line"] for x in script], "banners": s["banners"],
               "joined2": SP.joined_second_halves(r["transcript"], "ios")}]
        end = {}
        for x in r["transcript"]:
            if "i" in x:
                tr.append({"t": i + 1, "ev": "Recv", "i": x["i"], "class": x["class"], "line": x["line"]})
            elif x.get("end"):
                end = x
        if not end:
            raise C.Broken("simulator wrote no end record")
        tr.append({"t": i + 1, "ev": "End", "rc": r["rc"], "reloadPending": end["reload_pending"],
                   "saved": end["saved"], "stderr": r["stderr"][-300:]})
        return tr, r

    with ThreadPoolExecutor(C.NCPU) as ex:
        results = list(ex.map(runit, enumerate(scen)))
    path = os.path.join(root, "c15.ndjson")
    C.write_ndjson(path, [e for t, _ in results for e in t])
    res = C.run_tlc(SPEC, "IosReloadTrace", "IosReloadTrace.cfg", env={"TRACE": path}, timeout=1800)
    C.tlc_ok(res, "IosReloadTrace")
    rep.add_states(res)
    seen = set()
    for v in res.verr:
        _, tid, step, tag, detail, kf = v[:6]
        if (tid, detail) in seen:
            continue
        seen.add((tid, detail))
        if kf and kf in rep.kf:
            rep.known[kf] = rep.known.get(kf, 0) + 1
            continue
        s = scen[tid - 1]
        if not replay_file:
            t2, r2 = runit((tid - 1, s))
            p2 = os.path.join(root, "rerun.ndjson")
            C.write_ndjson(p2, t2)
            res2 = C.run_tlc(SPEC, "IosReloadTrace", "IosReloadTrace.cfg", env={"TRACE": p2}, timeout=300)
            if not res2.verr:
                raise C.Broken("failure of banner scenario %s not reproduced on re-run: %s" % (tid, detail))
        r = results[tid - 1][1]
        rep.known_or_violation("", "%s\n  banners %s front-end %s\n  rc=%s stderr: %s" % (
            detail, json.dumps(s["banners"]), s.get("fe"), r["rc"], r["stderr"][-300:]),
            {"property": "C15", "scenario": s})
    rep.cov.update({
        "traces_validated_against_impl": len(scen), "sessions": len(scen),
        "script_lines": [x["line"] for x in script],
        "samples": [scen[0], scen[len(scen) // 2], scen[-1]],
        "checker_cmd": "tlc IosReload.tla (IosReloadMC.cfg); tlc IosReloadTrace.tla on %d recorded IOS sessions" % len(scen),
    })
    rep.assumptions += [
        "banner forms are those of the repository's own scenario: bare banner at any byte offset of the echo, banner "
        "followed by a fresh prompt before or after the echo; banners during configure terminal / end / reload cancel "
        "are not injected",
        "the simulator writes everything it prints in reaction to one line in one piece (the tool's TryPrompt is racy otherwise)",
    ]
    shutil.rmtree(root, ignore_errors=True)
    return rep.finish()
