"""ASA dialect: rendering of abstract configurations, parsing of the tool's own output
dialect into abstract events (cmdparse) and the executable replica of specs/dev/Asa.tla.

The replica is never an oracle: it only renders prefix / final states for the next run of
the real planner; AsaTrace.tla requires its post-states to equal the specification's.
"""
import copy, re
from .common import Broken

ADDR = {"h1": "10.1.1.1", "h2": "10.1.1.2", "h3": "10.1.2.1", "h4": "10.1.2.2", "hx": "10.9.9.9"}
NETS = {"n12": ("10.1.1.0", "255.255.255.252"), "n34": ("10.1.2.0", "255.255.255.252"),
        "n14": ("10.1.0.0", "255.255.0.0"),
        "n13": ("10.1.0.0", "255.255.255.0")}        # routes only: the network address of n14 with a longer mask
GW = {"gA": "10.0.0.1", "gB": "10.0.0.2"}
ADDR6 = {"h1": "2001:db8:1:1::1", "h2": "2001:db8:1:1::2", "h3": "2001:db8:1:2::1",
         "h4": "2001:db8:1:2::2", "hx": "2001:db8:9::9"}
NETS6 = {"n12": "2001:db8:1:1::/64", "n34": "2001:db8:1:2::/64", "n14": "2001:db8:1::/48", "n13": "2001:db8:1::/64"}
GW6 = {"gA": "2001:db8::a", "gB": "2001:db8::b"}
RADDR = {v: k for k, v in ADDR.items()}
RNETS = {v: k for k, v in NETS.items()}
RGW = {v: k for k, v in GW.items()}
RADDR6 = {v: k for k, v in ADDR6.items()}
RNETS6 = {v: k for k, v in NETS6.items()}
RGW6 = {v: k for k, v in GW6.items()}

# svc -> (proto, port) ; device spelling uses names, Netspoc spelling numbers
SVC = {"ip": ("ip", None), "tcp": ("tcp", None), "icmp": ("icmp", None),
       "tcp80": ("tcp", 80), "tcp22": ("tcp", 22), "udp53": ("udp", 53),
       # members of service object-groups: ports without a name (the tool documents that named ports inside
       # object-groups are not normalised - asa_acl.t "Element of object-group with named port ...")
       "tcp81": ("tcp", 81), "tcp82": ("tcp", 82)}
# further services of the spelling family S1: atom -> ((proto, tail) in Netspoc spelling, (proto, tail) in device
# spelling); neighbouring atoms differ in one number only, so a normaliser that is too coarse shows as well
SVCX = {"esp": (("50", ""), ("esp", "")), "ah": (("51", ""), ("ah", "")), "gre": (("47", ""), ("gre", "")),
        "icmp8": (("icmp", " 8"), ("icmp", " echo")), "icmp0": (("icmp", " 0"), ("icmp", " echo-reply")),
        "icmp3-1": (("icmp", " 3 1"), ("icmp", " host-unreachable")),
        "tcp2021": (("tcp", " range 20 21"), ("tcp", " range ftp-data ftp")),
        "tcp2022": (("tcp", " range 20 22"), ("tcp", " range ftp-data ssh")),
        "tcpgt": (("tcp", " gt 1023"), ("tcp", " gt 1023")), "tcplt": (("tcp", " lt 1024"), ("tcp", " lt 1024")),
        "udp123": (("udp", " eq 123"), ("udp", " eq ntp")), "udp124": (("udp", " eq 124"), ("udp", " eq 124")),
        # IOS only: `established` behind the destination (port)
        "tcpest": (("tcp", " established"), ("tcp", " established")),
        "tcp80est": (("tcp", " eq 80 established"), ("tcp", " eq www established"))}
RSVCX = {}
for _a, (_n, _d) in SVCX.items():
    RSVCX[(_n[0], _n[1].strip())] = _a
    RSVCX[(_d[0], _d[1].strip())] = _a
PORTNAME = {("tcp", 80): "www", ("tcp", 22): "ssh", ("udp", 53): "domain"}
RPORT = {"www": 80, "ssh": 22, "domain": 53, "http": 80}
LOGS = {"": "", "log": " log", "log4": " log 4"}
LOGS_DEV = {"": "", "log": " log", "log4": " log warnings"}
IFHW = {"inside": "Ethernet0/0", "outside": "Ethernet0/1", "dmz": "Ethernet0/2"}


def term(t, dev):
    k, v = t["k"], t["v"]
    if k == "any":
        return "any4"
    if k == "host":
        return "host " + ADDR[v]
    if k == "net":
        return "%s %s" % NETS[v]
    if k == "grp":
        return "object-group " + v
    if k == "any6":
        return "any6"
    if k == "host6":
        return "host " + ADDR6[v]
    if k == "net6":
        return NETS6[v]
    raise Broken("bad term %r" % (t,))


PORTATOM = {80: "tcp80", 22: "tcp22", 53: "udp53", 81: "tcp81", 82: "tcp82"}


def ace_text(name, ace, dev, line=None):
    sgrp = None
    if ace["svc"] in SVCX:
        proto, tail = SVCX[ace["svc"]][1 if dev else 0]
        return "access-list %s %sextended %s %s %s %s%s%s" % (
            name, ("line %d " % line) if line else "", ace["act"], proto, term(ace["src"], dev), term(ace["dst"], dev),
            tail, (LOGS_DEV if dev else LOGS)[ace["log"]])
    if ace["svc"] in SVC:
        proto, port = SVC[ace["svc"]]
    else:                       # the service is an object-group of type `service ... tcp`
        proto, port, sgrp = "tcp", None, ace["svc"]
    s = "access-list %s %sextended %s %s %s %s" % (
        name, ("line %d " % line) if line else "", ace["act"], proto,
        term(ace["src"], dev), term(ace["dst"], dev))
    if port is not None:
        s += " eq %s" % (PORTNAME[(proto, port)] if dev else port)
    if sgrp:
        s += " object-group " + sgrp
    s += (LOGS_DEV if dev else LOGS)[ace["log"]]
    return s


def member_text(a, dev=False):
    if a in SVC:                # member of a service group
        proto, port = SVC[a]
        return "port-object eq %s" % (PORTNAME.get((proto, port), port) if dev else port)
    if a in ADDR:
        return "network-object host " + ADDR[a]
    return "network-object %s %s" % NETS[a]


def route_text(r):
    if r["fam"] == "6":
        dst = {"any": "::/0"}.get(r["dst"]) or NETS6.get(r["dst"]) or (ADDR6[r["dst"]] + "/128")
        return "ipv6 route %s %s %s" % (r["if"], dst, GW6[r["gw"]])
    if r["dst"] == "any":
        d = ("0.0.0.0", "0.0.0.0")
    elif r["dst"] in NETS:
        d = NETS[r["dst"]]
    else:
        d = (ADDR[r["dst"]], "255.255.255.255")
    return "route %s %s %s %s" % (r["if"], d[0], d[1], GW[r["gw"]])


def render(cfg, dev):
    """Abstract config -> text (dev=True: `write term` spelling, else Netspoc spelling)."""
    out = []
    if dev:
        for i in sorted(cfg.get("ifs", [])):
            out += ["interface " + IFHW[i]] + ([" shutdown"] if i in cfg.get("shut", []) else []) + \
                   [" nameif " + i, " security-level 0", "!"]
    for g in sorted(cfg["groups"]):
        typ = cfg["groups"][g]["typ"]
        if typ.startswith("service-"):
            out.append("object-group service %s %s" % (g, typ[len("service-"):]))
        else:
            out.append("object-group %s %s" % (typ, g))
        for a in sorted(cfg["groups"][g]["m"]):
            out.append(" " + member_text(a, dev))
    for n in sorted(cfg["acls"]):
        for ace in cfg["acls"][n]:
            out.append(ace_text(n, ace, dev))
    for b in sorted(cfg["binds"], key=lambda b: (b["if"], b["dir"])):
        if b["dir"] == "global":
            out.append("access-group %s global" % b["acl"])
        else:
            out.append("access-group %s %s interface %s" % (b["acl"], b["dir"], b["if"]))
    for r in sorted(cfg["routes"], key=lambda r: (r["fam"], r["dst"], r["gw"])):
        out.append(route_text(r))
    return "\n".join(out) + "\n"


def merge_files(case):
    """(ipv6 text or None, raw text or None) for a merge case (family M1)."""
    pa = case["tgt"]["parts"]
    v6 = raw = None
    if pa["v6"]:
        v6 = "".join(ace_text("inside_in", a, False) + "\n" for a in pa["v6"]) + \
            "access-group inside_in in interface inside\n"
    if pa["pre"] or pa["app"]:
        raw = "".join(ace_text("inside_in", a, False) + "\n" for a in pa["pre"])
        raw += "access-group inside_in in interface inside\n"
        if pa["app"]:
            raw += "[APPEND]\n" + "".join(ace_text("inside_in", a, False) + "\n" for a in pa["app"])
    return v6, raw


# ------------------------------------------------------------------ cmdparse

def _addr(tok):
    """tok list -> (term, rest)"""
    if tok[0] in ("any4", "any"):
        return {"k": "any", "v": ""}, tok[1:]
    if tok[0] == "any6":
        return {"k": "any6", "v": ""}, tok[1:]
    if tok[0] == "host" and ":" in tok[1]:
        return {"k": "host6", "v": RADDR6[tok[1]]}, tok[2:]
    if tok[0] in RNETS6:
        return {"k": "net6", "v": RNETS6[tok[0]]}, tok[1:]
    if tok[0] == "host":
        return {"k": "host", "v": RADDR[tok[1]]}, tok[2:]
    if tok[0] == "object-group":
        return {"k": "grp", "v": tok[1]}, tok[2:]
    if (tok[0], tok[1]) in RNETS:
        return {"k": "net", "v": RNETS[(tok[0], tok[1])]}, tok[2:]
    raise Broken("cmdparse: unknown address %r" % tok[:2])


def parse_ace(tok):
    act, proto = tok[0], tok[1]
    src, rest = _addr(tok[2:])
    dst, rest = _addr(rest)
    port = None
    sgrp = None
    # services of the spelling family (either spelling): everything up to a trailing log attribute
    tailtok = rest[:rest.index("log")] if "log" in rest else rest
    if (proto, " ".join(tailtok)) in RSVCX and not (proto in ("tcp", "udp", "icmp") and not tailtok):
        logtok = rest[len(tailtok):]
        log = {(): "", ("log",): "log", ("log", "4"): "log4", ("log", "warnings"): "log4"}.get(tuple(logtok))
        if log is None:
            raise Broken("cmdparse: unknown ACE tail %r" % rest)
        return {"act": act, "svc": RSVCX[(proto, " ".join(tailtok))], "src": src, "dst": dst, "log": log}
    if rest and rest[0] == "eq":
        p = rest[1]
        port = RPORT.get(p) or int(p)
        rest = rest[2:]
    elif rest and rest[0] == "object-group":
        sgrp = rest[1]
        rest = rest[2:]
    log = ""
    if rest:
        if rest == ["log"]:
            log = "log"
        elif rest in (["log", "4"], ["log", "warnings"]):
            log = "log4"
        else:
            raise Broken("cmdparse: unknown ACE tail %r" % rest)
    if sgrp:
        if proto != "tcp":
            raise Broken("cmdparse: service group with protocol " + proto)
        return {"act": act, "svc": sgrp, "src": src, "dst": dst, "log": log}
    svc = [k for k, v in SVC.items() if v == (proto, port)]
    if not svc:
        raise Broken("cmdparse: unknown service %s %s" % (proto, port))
    return {"act": act, "svc": svc[0], "src": src, "dst": dst, "log": log}


def parse_member(tok):
    if tok[:2] == ["port-object", "eq"]:
        p = RPORT.get(tok[2]) or int(tok[2])
        return PORTATOM[p]
    if tok[0] == "network-object":
        if tok[1] == "host":
            return RADDR[tok[2]]
        return RNETS[(tok[1], tok[2])]
    raise Broken("cmdparse: unknown group member %r" % tok)


def parse_route(tok):
    if tok[0] == "ipv6":
        _, _, intf, dst, gw = tok
        d = "any" if dst == "::/0" else RNETS6.get(dst) or RADDR6[dst.split("/")[0]]
        return {"fam": "6", "if": intf, "dst": d, "gw": RGW6[gw]}
    _, intf, ip, mask, gw = tok
    if (ip, mask) == ("0.0.0.0", "0.0.0.0"):
        d = "any"
    elif (ip, mask) in RNETS:
        d = RNETS[(ip, mask)]
    elif mask == "255.255.255.255":
        d = RADDR[ip]
    else:
        raise Broken("cmdparse: unknown route destination %s %s" % (ip, mask))
    return {"fam": "4", "if": intf, "dst": d, "gw": RGW[gw]}


def parse_cmd(line):
    tok = line.split()
    no = tok[0] == "no"
    if no:
        tok = tok[1:]
    if tok[0] == "access-list":
        name = tok[1]
        rest = tok[2:]
        pos = 0
        if rest[0] == "line":
            pos = int(rest[1])
            rest = rest[2:]
        if rest[0] != "extended":
            raise Broken("cmdparse: unsupported access-list form: " + line)
        ace = parse_ace(rest[1:])
        if no:
            return {"ev": "AclDelete", "n": name, "pos": pos, "ace": ace}
        if pos:
            return {"ev": "AclInsert", "n": name, "pos": pos, "ace": ace}
        return {"ev": "AclAppend", "n": name, "ace": ace}
    if tok[:3] == ["clear", "configure", "access-list"] and not no:
        return {"ev": "AclClear", "n": tok[3]}
    if tok[0] == "object-group":
        if no:
            return {"ev": "GrpDelete", "n": tok[2]}
        typ = tok[1] if len(tok) == 3 else "%s-%s" % (tok[1], tok[3])
        return {"ev": "GrpEnter", "typ": typ, "n": tok[2]}
    if tok[0] in ("network-object", "port-object"):
        return {"ev": "MemberDel" if no else "MemberAdd", "a": parse_member(tok)}
    if tok[0] == "access-group":
        if tok[2] == "global":
            intf, d = "", "global"
        else:
            d, intf = tok[2], tok[4]
        return {"ev": "Unbind" if no else "Bind", "n": tok[1], "if": intf, "dir": d}
    if tok[0] == "route" or tok[:2] == ["ipv6", "route"]:
        return {"ev": "RouteDel" if no else "RouteAdd", "r": parse_route(tok)}
    if tok == ["exit"] and not no:
        return {"ev": "Exit"}
    raise Broken("cmdparse: command outside the known output dialect: " + line)


def parse_script(text):
    """Planner stdout -> list of events with half in {0,1,2}."""
    evs = []
    for line in text.split("\n"):
        if not line.strip():
            continue
        parts = line.split("\\N ")
        if len(parts) == 1:
            e = parse_cmd(parts[0])
            e["half"] = 0
            evs.append(e)
        elif len(parts) == 2:
            for h, p in enumerate(parts):
                e = parse_cmd(p)
                e["half"] = h + 1
                evs.append(e)
        else:
            raise Broken("cmdparse: more than two joined commands: " + line)
    return evs


# ------------------------------------------------------------------ replica of Asa.tla

def same_line(a, b):
    return {**a, "log": ""} == {**b, "log": ""}


def grp_refs(ace):
    return {t["v"] for t in (ace["src"], ace["dst"]) if t["k"] == "grp"} | ({ace["svc"]} if ace["svc"] not in SVC and ace["svc"] not in SVCX else set())


class Replica:
    def __init__(self, cfg):
        c = copy.deepcopy(cfg)
        self.acls = c["acls"]
        self.groups = {n: {"typ": g["typ"], "m": sorted(g["m"])} for n, g in c["groups"].items()}
        self.binds = c["binds"]
        self.routes = c["routes"]
        self.ifs = c.get("ifs", [])
        self.mode = ""

    def state(self):
        return {"acls": copy.deepcopy(self.acls),
                "groups": {n: {"typ": g["typ"], "m": sorted(g["m"])} for n, g in self.groups.items()},
                "binds": copy.deepcopy(self.binds), "routes": copy.deepcopy(self.routes),
                "ifs": list(self.ifs)}

    def acl_referenced(self, n):
        return any(b["acl"] == n for b in self.binds)

    def grp_referenced(self, g):
        return any(g in grp_refs(a) for l in self.acls.values() for a in l)

    def apply(self, e):
        ev = e["ev"]
        if ev in ("Resume",):
            self.mode = ""
            return
        if ev == "Exit":
            self.mode = ""
            return
        if ev in ("MemberAdd", "MemberDel"):
            if self.mode == "":
                return
            m = self.groups[self.mode]["m"]
            if ev == "MemberAdd":
                if e["a"] not in m:
                    m.append(e["a"])
                    m.sort()
            elif e["a"] in m:
                m.remove(e["a"])
            return
        if ev == "GrpEnter":
            n = e["n"]
            if n in self.groups and self.groups[n]["typ"] != e["typ"]:
                self.mode = ""
                return
            self.groups.setdefault(n, {"typ": e["typ"], "m": []})
            self.mode = n
            return
        self.mode = ""
        if ev == "AclInsert":
            n, pos, ace = e["n"], e["pos"], e["ace"]
            if n not in self.acls or pos < 1 or pos > len(self.acls[n]) + 1:
                return
            if not grp_refs(ace) <= set(self.groups) or any(same_line(x, ace) for x in self.acls[n]):
                return
            self.acls[n].insert(pos - 1, copy.deepcopy(ace))
        elif ev == "AclAppend":
            n, ace = e["n"], e["ace"]
            if not grp_refs(ace) <= set(self.groups):
                return
            if n in self.acls and any(same_line(x, ace) for x in self.acls[n]):
                return
            self.acls.setdefault(n, []).append(copy.deepcopy(ace))
        elif ev == "AclDelete":
            n, pos, ace = e["n"], e["pos"], e["ace"]
            if n not in self.acls or pos < 1 or pos > len(self.acls[n]) or self.acls[n][pos - 1] != ace:
                return
            if len(self.acls[n]) == 1:
                # the device removes the list together with the access-group commands naming it (Asa.tla)
                self.binds = [b for b in self.binds if b["acl"] != n]
                del self.acls[n]
            else:
                del self.acls[n][pos - 1]
        elif ev == "AclClear":
            n = e["n"]
            if n in self.acls:
                self.binds = [b for b in self.binds if b["acl"] != n]
                del self.acls[n]
        elif ev == "GrpDelete":
            n = e["n"]
            if n in self.groups and not self.grp_referenced(n):
                del self.groups[n]
        elif ev == "Bind":
            if e["n"] in self.acls:
                self.binds = [b for b in self.binds if not (b["if"] == e["if"] and b["dir"] == e["dir"])]
                self.binds.append({"acl": e["n"], "if": e["if"], "dir": e["dir"]})
        elif ev == "Unbind":
            b = {"acl": e["n"], "if": e["if"], "dir": e["dir"]}
            if b in self.binds:
                self.binds.remove(b)
        elif ev == "RouteAdd":
            r = e["r"]
            if not any(q["fam"] == r["fam"] and q["dst"] == r["dst"] for q in self.routes):
                self.routes.append(copy.deepcopy(r))
        elif ev == "RouteDel":
            if e["r"] in self.routes:
                self.routes.remove(e["r"])
        else:
            raise Broken("replica: unknown event " + ev)
