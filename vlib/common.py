"""Shared infrastructure: scratch dirs, building /repo, running TLC, evidence, known findings.

Exit codes of every check: 0 held, 1 reproduced violation, 2 the check itself is broken.
"""
import json, os, re, shutil, subprocess, sys, tempfile, time, atexit, hashlib

VERIF = os.path.dirname(os.path.dirname(os.path.abspath(__file__)))
REPO = os.environ.get("VERIF_REPO", "/repo")
SPECS = os.path.join(VERIF, "specs")
HARNESS = os.path.join(VERIF, "harness")
EVID = os.path.join(VERIF, "evidence")
KF_FILE = os.path.join(VERIF, "KNOWN_FINDINGS.txt")
TLA_CP = "/opt/veriftools/tla/tla2tools.jar:/opt/veriftools/tla/CommunityModules-deps.jar"
NCPU = min(16, os.cpu_count() or 4)

GOENV = dict(GOFLAGS="-mod=mod", GOPROXY="off", GOSUMDB="off", GOTOOLCHAIN="local",
             CGO_ENABLED="0")

_scratch = None


class Broken(Exception):
    """The check itself is broken (exit 2) - never a violation."""


def seed():
    try:
        return int(os.environ.get("VERIF_SEED", "1"))
    except ValueError:
        return 1


def scratch():
    """Per-run scratch directory outside /repo and /verif; removed at exit."""
    global _scratch
    if _scratch is None:
        base = os.environ.get("VERIF_SCRATCH_BASE", "/var/tmp")
        os.makedirs(base, exist_ok=True)
        _scratch = tempfile.mkdtemp(prefix="verif-", dir=base)
        if not os.environ.get("VERIF_KEEP"):
            atexit.register(lambda: shutil.rmtree(_scratch, ignore_errors=True))
    return _scratch


def sub(name):
    d = os.path.join(scratch(), name)
    os.makedirs(d, exist_ok=True)
    return d


def run(cmd, **kw):
    kw.setdefault("stdout", subprocess.PIPE)
    kw.setdefault("stderr", subprocess.STDOUT)
    kw.setdefault("text", True)
    return subprocess.run(cmd, **kw)


_built = None


def build():
    """Build the repository's binaries and the harness from /repo's working tree (tag verif)."""
    global _built
    if _built:
        return _built
    out = sub("bin")
    env = dict(os.environ, **GOENV)
    t0 = time.time()
    gosrc = os.path.join(REPO, "go")
    r = run(["go", "build", "-tags", "verif", "-o", out + "/", "./cmd/..."], cwd=gosrc, env=env)
    if r.returncode != 0:
        raise Broken("go build of /repo failed:\n" + r.stdout)
    # harness module: built from a scratch copy whose go.mod points at the repository under test
    hsrc = sub("harness-src")
    shutil.rmtree(hsrc)
    shutil.copytree(HARNESS, hsrc, ignore=shutil.ignore_patterns("go.sum"))
    gm = open(os.path.join(hsrc, "go.mod")).read()
    gm = re.sub(r"(?m)^replace github.com/hknutzen/Netspoc-Approve/go => .*$",
                "replace github.com/hknutzen/Netspoc-Approve/go => " + gosrc, gm)
    open(os.path.join(hsrc, "go.mod"), "w").write(gm)
    shutil.copyfile(os.path.join(gosrc, "go.sum"), os.path.join(hsrc, "go.sum"))
    r = run(["go", "build", "-tags", "verif", "-o", out + "/", "./cmd/..."], cwd=hsrc, env=env)
    if r.returncode != 0:
        raise Broken("go build of harness failed:\n" + r.stdout)
    _built = out
    return out


# ---------------------------------------------------------------- TLC

class TlcResult:
    def __init__(self):
        self.rc = None
        self.out = ""
        self.generated = 0
        self.distinct = 0
        self.depth = 0
        self.verr = []      # parsed VERR tuples
        self.prints = []    # other PrintT lines of interest ("VOUT" prefix)
        self.error = None   # TLC error text (invariant violated, runtime error, ...)
        self.wall = 0.0


_VERR = re.compile(r'^<<\s*"(VERR|VOUT|VKF)"')


def _parse_tla_value(s):
    """Parse the small subset of TLC value syntax we print: tuples of strings/ints/bools."""
    s = s.strip()
    assert s.startswith("<<") and s.endswith(">>"), s
    body = s[2:-2]
    out, i, n = [], 0, len(body)
    while i < n:
        c = body[i]
        if c in " ,\n":
            i += 1
        elif c == '"':
            j = i + 1
            buf = []
            while body[j] != '"':
                if body[j] == "\\":
                    j += 1
                buf.append(body[j])
                j += 1
            out.append("".join(buf))
            i = j + 1
        elif c == "<":
            # nested tuple: find matching
            depth, j = 0, i
            while True:
                if body.startswith("<<", j):
                    depth += 1
                    j += 2
                elif body.startswith(">>", j):
                    depth -= 1
                    j += 2
                    if depth == 0:
                        break
                else:
                    j += 1
            out.append(_parse_tla_value(body[i:j]))
            i = j
        else:
            j = i
            while j < n and body[j] not in ",\n":
                j += 1
            tok = body[i:j].strip()
            if tok in ("TRUE", "FALSE"):
                out.append(tok == "TRUE")
            else:
                try:
                    out.append(int(tok))
                except ValueError:
                    out.append(tok)
            i = j
    return out


def run_tlc(specdir, module, cfg, env=None, workers=1, timeout=600, extra=None, heap="3g",
            deadlock=False, simulate=None, depth=None, tlc_seed=None, consts=None):
    """Run TLC on a scratch copy of specdir. Returns TlcResult.
    consts: {name: value-text} overrides `name = ...` lines of the cfg."""
    work = tempfile.mkdtemp(prefix="tlc-", dir=scratch())
    for root in (specdir,):
        for f in os.listdir(root):
            if f.endswith((".tla", ".cfg")):
                shutil.copy(os.path.join(root, f), work)
    if consts:
        p = os.path.join(work, cfg)
        txt = open(p).read()
        for k, v in consts.items():
            txt, n = re.subn(r"(?m)^(\s*%s\s*=\s*).*$" % re.escape(k), lambda m: m.group(1) + str(v), txt)
            if n != 1:
                raise Broken("constant %s not found in %s" % (k, cfg))
        open(p, "w").write(txt)
    cmd = ["java", "-Xmx" + heap, "-Xss64m", "-XX:+UseParallelGC", "-cp", TLA_CP, "tlc2.TLC",
           "-workers", str(workers), "-metadir", os.path.join(work, "meta"),
           "-config", cfg]
    if deadlock:
        cmd.append("-deadlock")
    if simulate is not None:
        cmd += ["-simulate", simulate]
    if depth is not None:
        cmd += ["-depth", str(depth)]
    if tlc_seed is not None:
        cmd += ["-seed", str(tlc_seed)]
    if extra:
        cmd += extra
    cmd.append(module + ".tla")
    e = dict(os.environ)
    e.pop("JAVA_TOOL_OPTIONS", None)
    if env:
        e.update(env)
    res = TlcResult()
    t0 = time.time()
    try:
        r = subprocess.run(cmd, cwd=work, env=e, stdout=subprocess.PIPE, stderr=subprocess.STDOUT,
                           text=True, timeout=timeout)
        res.rc, res.out = r.returncode, r.stdout
    except subprocess.TimeoutExpired as ex:
        res.rc, res.out = -9, (ex.stdout or "")
        if isinstance(res.out, bytes):
            res.out = res.out.decode("utf8", "replace")
        res.error = "timeout"
    res.wall = time.time() - t0
    _parse_tlc(res)
    shutil.rmtree(work, ignore_errors=True)
    return res


def _parse_tlc(res):
    lines = res.out.split("\n")
    i = 0
    while i < len(lines):
        ln = lines[i]
        if _VERR.match(ln):
            buf = ln
            while buf.count("<<") > buf.count(">>") and i + 1 < len(lines):
                i += 1
                buf += "\n" + lines[i]
            try:
                v = _parse_tla_value(buf)
            except Exception:
                v = ["VERR", "unparsable", buf]
            if v[0] == "VOUT":
                res.prints.append(v[1:])
            else:
                res.verr.append(v)
        m = re.match(r"^(\d+) states generated, (\d+) distinct states found", ln)
        if m:
            res.generated, res.distinct = int(m.group(1)), int(m.group(2))
        m = re.match(r"^The depth of the complete state graph search is (\d+)", ln)
        if m:
            res.depth = int(m.group(1))
        if ln.startswith("Error:") and res.error is None:
            res.error = "\n".join(lines[i:i + 12])
        i += 1


def tlc_ok(res, what):
    """Raise Broken unless TLC finished without any error (used for trace validation batches)."""
    if res.error or res.rc != 0:
        raise Broken("%s: TLC failed rc=%s\n%s" % (what, res.rc, res.error or res.out[-3000:]))


# ---------------------------------------------------------------- known findings

def load_kf(prop):
    """Return dict key -> description for `finding:` lines of this property."""
    out = {}
    if not os.path.exists(KF_FILE):
        return out
    for ln in open(KF_FILE):
        ln = ln.strip()
        if not ln.startswith("finding:"):
            continue
        m = re.match(r"finding:\s+property=(\S+)\s+key=(\S+)\s+(.*)", ln)
        if m and m.group(1) == prop:
            out[m.group(2)] = m.group(3)
    return out


# ---------------------------------------------------------------- evidence / verdict

class Report:
    def __init__(self, prop, tier, level):
        self.prop, self.tier, self.level = prop, tier, level
        self.t0 = time.time()
        self.cov = {}
        self.assumptions = []
        self.violations = []   # (description, replay path)
        self.known = {}        # key -> count
        self.kf = load_kf(prop)
        self.notes = []

    def add_states(self, res):
        self.cov["states"] = self.cov.get("states", 0) + res.distinct
        self.cov["transitions"] = self.cov.get("transitions", 0) + res.generated

    def known_or_violation(self, key, descr, replay_obj):
        """key: known-finding key computed by the spec's KF_* classifier ('' when unclassified)."""
        if key and key in self.kf:
            self.known[key] = self.known.get(key, 0) + 1
            return False
        path = write_replay(self.prop, replay_obj)
        self.violations.append((descr, path))
        return True

    def finish(self):
        os.makedirs(EVID, exist_ok=True)
        for key, n in sorted(self.known.items()):
            print("KNOWN-FINDING: property=%s %s (%d cases; %s)" % (self.prop, key, n, self.kf[key]))
        cov = dict(self.cov)
        cov.setdefault("known_findings_hit", self.known)
        ev = {
            "property_id": self.prop, "tier": self.tier, "seed": seed(), "level": self.level,
            "coverage": cov, "assumptions": self.assumptions,
            "wall_s": round(time.time() - self.t0, 2), "violations": len(self.violations),
        }
        if self.notes:
            ev["notes"] = self.notes
        evpath = os.path.join(EVID, self.prop + ".json")
        if os.environ.get("VERIF_NO_EVIDENCE"):     # runs against a scratch copy of the repository (seeded changes)
            evpath = os.path.join(scratch(), self.prop + ".json")
        with open(evpath, "w") as f:
            json.dump(ev, f, indent=1, sort_keys=True, default=str)
            f.write("\n")
        if self.violations:
            seen = set()
            for descr, path in self.violations[:20]:
                print("VIOLATION property=%s replay=%s" % (self.prop, path))
                print("  " + descr)
            if len(self.violations) > 20:
                print("  ... %d more violations" % (len(self.violations) - 20))
            if os.environ.get("VERIF_DEBUG"):
                for descr, path in self.violations:
                    print("DBG " + " | ".join(descr.split("\n")[:3])[:400])
            return 1
        print("OK property=%s tier=%s wall=%.1fs %s" % (
            self.prop, self.tier, time.time() - self.t0,
            json.dumps({k: v for k, v in cov.items() if isinstance(v, (int, bool))})))
        return 0


def write_replay(prop, obj):
    d = os.path.join(VERIF, "replays")
    os.makedirs(d, exist_ok=True)
    blob = json.dumps(obj, sort_keys=True, default=str)
    h = hashlib.sha1(blob.encode()).hexdigest()[:12]
    p = os.path.join(d, "%s-%s.json" % (prop, h))
    with open(p, "w") as f:
        f.write(blob + "\n")
    return p


def write_ndjson(path, events):
    with open(path, "w") as f:
        for e in events:
            f.write(json.dumps(e, separators=(",", ":")) + "\n")


def chunks(lst, n):
    """Split lst into n nearly equal consecutive parts (non-empty ones only)."""
    k, m = divmod(len(lst), n)
    out, i = [], 0
    for j in range(n):
        size = k + (1 if j < m else 0)
        if size:
            out.append(lst[i:i + size])
        i += size
    return out
