"""NSX dialect: abstract manager state <-> JSON, cmdparse of the REST calls the tool prints
(METHOD url / JSON body) and the replica of specs/dev/Nsx.tla."""
import copy, json, re
from .common import Broken

GP = "/infra/domains/default/groups/"
SP = "/infra/services/"
API = "/policy/api/v1"


def term_out(t):
    if t.startswith("g:"):
        return GP + t[2:]
    return t


def term_in(s):
    if s.startswith(GP):
        return "g:" + s[len(GP):]
    return s


def svc_out(s):
    return SP + s[2:] if s.startswith("s:") else s


def svc_in(s):
    return "s:" + s[len(SP):] if s.startswith(SP) else s


def svc_entry(v):
    proto, port = v.split("/")
    if proto == "ICMP":       # "ICMP/<type>" or "ICMP/" (every type); "ICMP/8.0" = type 8 code 0
        e = {"id": "id", "resource_type": "ICMPTypeServiceEntry", "protocol": "ICMPv4"}
        if port != "":
            t, _, c = port.partition(".")
            e["icmp_type"] = int(t)
            if c != "":
                e["icmp_code"] = int(c)
        return e
    if proto == "IPP":        # "IPP/<protocol number>"
        return {"id": "id", "resource_type": "IPProtocolServiceEntry", "protocol_number": int(port)}
    return {"id": "id", "resource_type": "L4PortSetServiceEntry", "l4_protocol": proto,
            "destination_ports": [port], "source_ports": []}


def svc_val(entries):
    e = entries[0]
    if e["resource_type"] == "ICMPTypeServiceEntry":
        v = "ICMP/"
        if e.get("icmp_type") is not None:
            v += str(e["icmp_type"])
            if e.get("icmp_code") is not None:
                v += "." + str(e["icmp_code"])
        return v
    if e["resource_type"] == "IPProtocolServiceEntry":
        return "IPP/%d" % e["protocol_number"]
    return "%s/%s" % (e["l4_protocol"], e["destination_ports"][0])


# the further attribute of a rule (field `opt` of the abstract rule): JSON key, value
OPTS = {"log": ("logged", True), "tag": ("tag", "t1"), "dis": ("disabled", True), "dx": ("destinations_excluded", True),
        "sx": ("sources_excluded", True), "v6": ("ip_protocol", "IPV6"), "prof": ("profiles", ["/infra/context-profiles/p1"]),
        "scope2": ("scope", ["/infra/tier-0s/v2"])}
OPT_DEFAULT = {"logged": False, "tag": "", "disabled": False, "destinations_excluded": False, "sources_excluded": False,
               "ip_protocol": "IPV4", "profiles": [], "scope": ["/infra/tier-0s/v1"]}


def rule_json(rid, r):
    j = {"resource_type": "Rule", "id": rid, "scope": ["/infra/tier-0s/v1"], "direction": r["dir"],
         "ip_protocol": "IPV4", "sequence_number": r["seq"], "action": r["action"],
         "source_groups": [term_out(r["src"])], "destination_groups": [term_out(r["dst"])],
         "services": [svc_out(r["svc"])]}
    if r.get("opt"):
        k, v = OPTS[r["opt"]]
        j[k] = v
    return j


def rule_abs(j):
    opts = [o for o, (k, v) in OPTS.items() if j.get(k, OPT_DEFAULT[k]) == v]
    for k, d in OPT_DEFAULT.items():
        if j.get(k, d) not in (d, None) and not any(OPTS[o][0] == k for o in opts):
            raise Broken("cmdparse: NSX rule attribute outside the modelled values: %s=%r" % (k, j.get(k)))
    if len(opts) > 1:
        raise Broken("cmdparse: NSX rule with several optional attributes: %r" % opts)
    return {"seq": j["sequence_number"], "action": j["action"], "dir": j["direction"],
            "src": term_in(j["source_groups"][0]), "dst": term_in(j["destination_groups"][0]),
            "svc": svc_in(j["services"][0]), "opt": opts[0] if opts else ""}


def render(cfg, dev):
    xids = cfg.get("xids") or {}
    out = {"groups": [{"id": n, "expression": [{"id": xids.get(n, "id"), "resource_type": "IPAddressExpression",
                                                 "ip_addresses": sorted(ms)}]}
                      for n, ms in sorted(cfg["groups"].items())],
           "policies": [{"id": p, "resource_type": "GatewayPolicy",
                         "rules": [rule_json(i, r) for i, r in sorted(rs.items())]}
                        for p, rs in sorted(cfg["policies"].items())],
           "services": [{"id": n, "service_entries": [svc_entry(v)]} for n, v in sorted(cfg["services"].items())]}
    return json.dumps(out, indent=1) + "\n"


def merge_files(case):
    """(ipv6 text, raw text) of a merge case"""
    c = case["tgt"]["parts"]["craw"]
    for k in ("policies", "groups", "services"):
        if c[k] == []:
            c[k] = {}
    m = case["tgt"]["parts"]["merged"]
    for k in ("policies", "groups", "services"):
        if m[k] == []:
            m[k] = {}
    return None, render(c, False)


# ------------------------------------------------------------------ cmdparse

def parse_script(text):
    lines = text.split("\n")
    evs = []
    i = 0
    while i < len(lines):
        ln = lines[i]
        i += 1
        if not ln.strip():
            continue
        m = re.match(r"^(PUT|PATCH|POST|DELETE) (\S+)$", ln)
        if not m:
            raise Broken("cmdparse: line outside the known NSX output dialect: " + ln[:200])
        method, url = m.groups()
        body = None
        if i < len(lines) and lines[i].strip() and not re.match(r"^(PUT|PATCH|POST|DELETE) ", lines[i]):
            body = json.loads(lines[i])
            i += 1
        elif i < len(lines):
            i += 1
        if not url.startswith(API):
            raise Broken("cmdparse: unknown NSX url " + url)
        path = url[len(API):]
        e = {"half": 0}
        k = re.match(r"^/infra/services/([^/?]+)$", path)
        if k:
            sid = k.group(1)
            e.update(obj=sid, netspoc=sid.startswith("Netspoc"))
            if method == "DELETE":
                evs.append(dict(e, ev="DeleteService", id=sid))
            elif method in ("PUT", "PATCH"):
                evs.append(dict(e, ev="PutService" if method == "PUT" else "PatchService", id=sid,
                                value=svc_val(body["service_entries"])))
            else:
                raise Broken("cmdparse: bad method on service: " + ln)
            continue
        k = re.match(r"^/infra/domains/default/groups/([^/?]+)(/ip-address-expressions/([^/?]+)(\?action=(add|remove))?)?$", path)
        if k:
            gid, sub, xid, _, act = k.groups()
            e.update(obj=gid, netspoc=gid.startswith("Netspoc"))
            if sub is None:
                if method == "DELETE":
                    evs.append(dict(e, ev="DeleteGroup", id=gid))
                elif method == "PUT":
                    evs.append(dict(e, ev="PutGroup", id=gid, members=sorted(body["expression"][0]["ip_addresses"]),
                                    x=body["expression"][0].get("id", "")))
                else:
                    raise Broken("cmdparse: bad method on group: " + ln)
            elif act:
                if method != "POST":
                    raise Broken("cmdparse: bad method on group action: " + ln)
                evs.append(dict(e, ev="GroupAdd" if act == "add" else "GroupRemove", id=gid, x=xid,
                                members=sorted(body["ip_addresses"])))
            elif method == "PATCH":
                evs.append(dict(e, ev="PatchExpr", id=gid, x=xid, members=sorted(body["ip_addresses"])))
            else:
                raise Broken("cmdparse: bad group url: " + ln)
            continue
        k = re.match(r"^/infra/domains/default/gateway-policies/([^/?]+)(/rules/([^/?]+))?$", path)
        if k:
            pid, sub, rid = k.groups()
            e.update(obj=pid, netspoc=pid.startswith("Netspoc"))
            if sub is None:
                if method == "DELETE":
                    evs.append(dict(e, ev="DeletePolicy", id=pid))
                elif method == "PUT":
                    evs.append(dict(e, ev="PutPolicy", id=pid, rules={r["id"]: rule_abs(r) for r in body["rules"]}))
                else:
                    raise Broken("cmdparse: bad method on policy: " + ln)
            elif method == "DELETE":
                evs.append(dict(e, ev="DeleteRule", pol=pid, id=rid))
            elif method in ("PUT", "PATCH"):
                evs.append(dict(e, ev="PutRule" if method == "PUT" else "PatchRule", pol=pid, id=rid, rule=rule_abs(body)))
            else:
                raise Broken("cmdparse: bad method on rule: " + ln)
            continue
        raise Broken("cmdparse: url outside the known NSX output dialect: " + url)
    return evs


# ------------------------------------------------------------------ replica of Nsx.tla

KNOWN_GROUPS = {"g:Netspoc-" + x for x in ("g0", "g1", "g2", "g0-1", "g1-1")}


class Replica:
    def __init__(self, cfg):
        c = copy.deepcopy(cfg)
        self.pol = c["policies"]
        self.grp = {n: sorted(m) for n, m in c["groups"].items()}
        self.xid = {n: (c.get("xids") or {}).get(n, "id") for n in self.grp}
        self.svc = c["services"]

    def state(self):
        return {"policies": copy.deepcopy(self.pol), "groups": copy.deepcopy(self.grp), "services": dict(self.svc),
                "xids": dict(self.xid)}

    def rules(self):
        return [r for rs in self.pol.values() for r in rs.values()]

    def dangling(self, r):
        for t in (r["src"], r["dst"]):
            if t in KNOWN_GROUPS and t[2:] not in self.grp:
                return True
        return r["svc"] != "ANY" and not (r["svc"].startswith("s:") and r["svc"][2:] in self.svc)

    def grp_used(self, g):
        return any("g:" + g in (r["src"], r["dst"]) for r in self.rules())

    def svc_used(self, s):
        return any(r["svc"] == "s:" + s for r in self.rules())

    def apply(self, e):
        ev = e["ev"]
        if ev == "Resume":
            return
        if ev == "PutService":
            self.svc[e["id"]] = e["value"]
        elif ev == "PatchService":
            if e["id"] in self.svc:
                self.svc[e["id"]] = e["value"]
        elif ev == "DeleteService":
            if e["id"] in self.svc and not self.svc_used(e["id"]):
                del self.svc[e["id"]]
        elif ev == "PutGroup":
            self.grp[e["id"]] = sorted(e["members"])
            self.xid[e["id"]] = e["x"]
        elif ev in ("GroupAdd", "GroupRemove", "PatchExpr") and e["id"] in self.grp and self.xid[e["id"]] != e["x"]:
            return          # the request names an expression the group does not have
        elif ev == "GroupAdd":
            if e["id"] in self.grp:
                self.grp[e["id"]] = sorted(set(self.grp[e["id"]]) | set(e["members"]))
        elif ev == "GroupRemove":
            g = self.grp.get(e["id"])
            if g is not None and set(e["members"]) <= set(g):
                self.grp[e["id"]] = sorted(set(g) - set(e["members"]))
        elif ev == "PatchExpr":
            if e["id"] in self.grp:
                self.grp[e["id"]] = sorted(e["members"])
        elif ev == "DeleteGroup":
            if e["id"] in self.grp and not self.grp_used(e["id"]):
                del self.grp[e["id"]]
                del self.xid[e["id"]]
        elif ev == "PutPolicy":
            if not any(self.dangling(r) for r in e["rules"].values()):
                self.pol[e["id"]] = copy.deepcopy(e["rules"])
        elif ev == "DeletePolicy":
            self.pol.pop(e["id"], None)
        elif ev == "PutRule":
            if e["pol"] in self.pol and e["id"] not in self.pol[e["pol"]] and not self.dangling(e["rule"]):
                self.pol[e["pol"]][e["id"]] = copy.deepcopy(e["rule"])
        elif ev == "PatchRule":
            if e["pol"] in self.pol and e["id"] in self.pol[e["pol"]] and not self.dangling(e["rule"]):
                self.pol[e["pol"]][e["id"]] = copy.deepcopy(e["rule"])
        elif ev == "DeleteRule":
            if e["pol"] in self.pol:
                self.pol[e["pol"]].pop(e["id"], None)
        else:
            raise Broken("NSX replica: unknown event " + ev)
