from . import sessprops


def run(tier, replay=None):
    return sessprops.run("C06", tier, replay)
