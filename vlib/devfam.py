"""Device-family pipeline shared by C01-C05, C07, C08, C10, C14, C16:

   TLC input universe (XxxGen.tla)  ->  render  ->  real planner (drc FILE_DEVICE FILE_NETSPOC)
   ->  cmdparse  ->  replica (post states)  ->  real planner again on the rendered state
   ->  ndjson traces  ->  TLC trace validation (XxxTrace.tla)  ->  VERR records
"""
import json, os, random, shutil, subprocess, tempfile
from concurrent.futures import ThreadPoolExecutor
from multiprocessing import Pool
from . import common as C
from . import asa, ios, linux, panos, nsx, asav

DEV = os.path.join(C.SPECS, "dev")

DIALECTS = {
    "asa": dict(mod=asa, model="ASA", gen="AsaGen", trace="AsaTrace"),
    "asav": dict(mod=asav, model="ASA", gen="AsaVGen", trace="AsaVTrace", maps=("objs",)),
    "nsx": dict(mod=nsx, model="NSX", gen="NsxGen", trace="NsxTrace", maps=("policies", "groups", "services")),
    "panos": dict(mod=panos, model="PAN-OS", gen="PanosGen", trace="PanosTrace",
                  maps=("addrs", "groups", "svcs", "sgroups")),
    "linux": dict(mod=linux, model="Linux", gen="LinuxGen", trace="LinuxTrace", maps=("tables",)),
    "ios": dict(mod=ios, model="IOS", gen="IosGen", trace="IosTrace", maps=("acls", "intfs", "cmaps", "ifcm")),
}


def register(name, **kw):
    DIALECTS[name] = kw


# ------------------------------------------------------------------ generation

def _gen_key(D, cs):
    import hashlib
    h = hashlib.sha1()
    for f in (D["gen"] + ".tla", D["gen"] + ".cfg", "AclSem.tla"):      # the dialect's own generator only
        p = os.path.join(DEV, f)
        if os.path.exists(p):
            h.update(open(p, "rb").read())
    h.update(json.dumps(cs, sort_keys=True).encode())
    return h.hexdigest()[:16]


def gen_cases(dialect, fam, consts=None, limit=None, rng=None, timeout=1800):
    """Enumerate the input universe `fam` with TLC; optionally keep a seeded sample.
    The enumeration depends only on the specification, so it is cached under /verif/cache
    (keyed by the hash of the generator modules and constants; filled by `./check setup`)."""
    import gzip
    D = DIALECTS[dialect]
    cs = {"Fam": '"%s"' % fam}
    cs.update(consts or {})
    cdir = os.path.join(C.VERIF, "cache")
    if fam.endswith("L"):
        cs["Seed"] = str(C.seed())
    # one case per line, so that a sample can be drawn without parsing the whole universe
    cfile = os.path.join(cdir, "%s-%s-%s.ndjson.gz" % (D["gen"], fam, _gen_key(D, cs)))
    lines = None
    if os.path.exists(cfile):
        try:
            with gzip.open(cfile, "rb") as f:
                lines = f.read().split(b"\n")
            if lines and lines[-1] == b"":
                lines.pop()
        except Exception:
            lines = None
    if lines is None:
        # random families (Randomization!RandomSubset) are drawn with tlc -seed = Seed constant of the cache key
        tseed = int(cs.pop("Seed")) if "Seed" in cs else None
        res = C.run_tlc(DEV, D["gen"], D["gen"] + ".cfg", consts=cs, timeout=timeout, heap="8g", tlc_seed=tseed)
        if res.error or res.rc != 0:
            raise C.Broken("%s %s failed: %s" % (D["gen"], fam, res.error or res.out[-2000:]))
        lines = []
        for p in res.prints:
            c = json.loads(p[0])
            for side in ("dev", "tgt"):      # an empty TLA+ function is printed as an empty JSON array
                for k, v in c[side].items():
                    if v == [] and k in D.get("maps", ("acls", "groups")):
                        c[side][k] = {}
            lines.append(json.dumps(c, separators=(",", ":"), sort_keys=True).encode())
        try:
            os.makedirs(cdir, exist_ok=True)
            tmp = cfile + ".%d.tmp" % os.getpid()
            with gzip.open(tmp, "wb", compresslevel=3) as f:
                f.write(b"\n".join(lines) + b"\n")
            os.replace(tmp, cfile)
        except OSError:
            pass
    total = len(lines)
    if limit and total > limit:
        idx = sorted((rng or random.Random(C.seed())).sample(range(total), limit))
        lines = [lines[i] for i in idx]
    return [json.loads(x) for x in lines], total


# ------------------------------------------------------------------ running the real planner

_wdir = None
_bins = None
_dialect = None


def _init_worker(bins, dialect, root):
    global _wdir, _bins, _dialect
    _bins, _dialect = bins, dialect
    _wdir = tempfile.mkdtemp(prefix="w", dir=root)
    os.makedirs(os.path.join(_wdir, "code", "ipv6"), exist_ok=True)
    with open(os.path.join(_wdir, "code", "router.info"), "w") as f:
        json.dump({"model": DIALECTS[dialect]["model"], "name_list": ["router"],
                   "ip_list": ["10.1.13.33"]}, f)


def drc(device_text, spoc_text, spoc6=None, raw=None):
    """Run the real planner on files; returns (rc, stdout, stderr)."""
    w = _wdir
    open(os.path.join(w, "device"), "w").write(device_text)
    open(os.path.join(w, "code", "router"), "w").write(spoc_text)
    for rel, txt in (("code/ipv6/router", spoc6), ("code/router.raw", raw)):
        p = os.path.join(w, rel)
        if txt is None:
            if os.path.exists(p):
                os.remove(p)
        else:
            open(p, "w").write(txt)
    r = subprocess.run([os.path.join(_bins, "drc"), "-q", "device", "code/router"], cwd=w,
                       stdout=subprocess.PIPE, stderr=subprocess.PIPE, text=True, timeout=120)
    return r.returncode, r.stdout, r.stderr


def _plan(mod, devcfg, case):
    spoc = mod.render(case["tgt"], False)
    spoc6 = raw = None
    if "parts" in case["tgt"]:
        spoc6, raw = mod.merge_files(case)
    return drc(mod.render(devcfg, True), spoc, spoc6, raw)


def work_case(args):
    """One (A,B) pair -> result dict with traces.  mode: 'conv' | 'resume' | 'det'"""
    case, mode = args
    mod = DIALECTS[_dialect]["mod"]
    tid = case["id"]
    out = {"id": tid, "traces": [], "rejected": None, "nev": 0}
    rc, so, se = _plan(mod, case["dev"], case)
    if rc != 0:
        out["rejected"] = {"rc": rc, "stderr": se[-600:]}
        return out
    out["warn"] = se.strip()[:300]
    try:
        evs = mod.parse_script(so)
    except C.Broken as e:
        out["broken"] = str(e)
        return out
    out["nev"] = len(evs)
    init = {"t": tid, "ev": "Init", "fam": case["fam"], "safe": bool(case.get("safe")),
            "dev": case["dev"], "tgt": case.get("eff", case["tgt"])}

    def finish(rep, trace):
        final = rep.state()
        rc2, so2, se2 = _plan(mod, final, case)
        if rc2 != 0:
            trace.append({"t": tid, "ev": "Done", "post": final, "n2": -1, "err2": se2[-300:]})
        else:
            n2 = len([x for x in so2.split("\n") if x.strip()])
            trace.append({"t": tid, "ev": "Done", "post": final, "n2": n2, "s2": so2[:300] if n2 else ""})
        return trace

    if hasattr(mod, "init_extra"):
        init.update(mod.init_extra(evs))
    if mode == "det":
        import hashlib
        n = 12 if case.get("tie") else 4
        tr = [init]
        outs = {}
        for i in range(n):
            if i:
                rc, so, se = _plan(mod, case["dev"], case)
            dig = hashlib.sha1(json.dumps([rc, so, se]).encode()).hexdigest()
            outs.setdefault(dig, [rc, so, se])
            tr.append({"t": tid, "ev": "Run", "out": dig})
        out["traces"].append(tr)
        out["script"] = "\n=== other run ===\n".join(v[1] for v in outs.values())
        out["nruns"] = n
        return out
    if mode in ("conv", "merge"):
        rep = mod.Replica(case["dev"])
        tr = [init]
        for e in evs:
            rep.apply(e)
            tr.append(dict(e, t=tid))
        out["traces"].append(finish(rep, tr))
        out["script"] = so
    elif mode == "resume":
        # one trace per cut position k (after the k-th event, also between the halves of an entry)
        for k in range(1, len(evs)):
            rep = mod.Replica(case["dev"])
            t2 = "%s/%d" % (tid, k)
            tr = [dict(init, t=t2)]
            for e in evs[:k]:
                rep.apply(e)
                tr.append(dict(e, t=t2))
            rep.apply({"ev": "Resume"})
            mid = rep.state()
            rcm, som, sem = _plan(mod, mid, case)
            if rcm != 0:
                tr.append({"t": t2, "ev": "Resume", "post": mid})
                tr.append({"t": t2, "ev": "Done", "post": mid, "n2": -1, "err2": sem[-300:]})
                out["traces"].append(tr)
                continue
            tr.append({"t": t2, "ev": "Resume", "post": mid})
            try:
                ev2 = mod.parse_script(som)
            except C.Broken as e:
                out["broken"] = str(e)
                return out
            for e in ev2:
                rep.apply(e)
                tr.append(dict(e, t=t2))
            fin = finish(rep, tr)
            for x in fin:
                x["t"] = t2
            out["traces"].append(fin)
    return out


def run_cases(bins, dialect, cases, mode="conv"):
    root = C.sub("plan-" + dialect)
    with Pool(C.NCPU, initializer=_init_worker, initargs=(bins, dialect, root)) as pool:
        res = pool.map(work_case, [(c, mode) for c in cases], chunksize=16)
    shutil.rmtree(root, ignore_errors=True)
    for r in res:
        if r.get("broken"):
            raise C.Broken("case %s: %s" % (r["id"], r["broken"]))
    return res


# ------------------------------------------------------------------ TLC validation

def validate(dialect, results, tag="t", spec=None):
    """Write all traces into <=NCPU ndjson files and run the trace spec on each.
    Returns (list of VERR records, number of traces, number of events, TLC results)."""
    D = DIALECTS[dialect]
    traces = [t for r in results for t in r["traces"]]
    if not traces:
        return [], 0, 0, []
    work = C.sub("val-%s-%s" % (dialect, tag))
    parts = C.chunks(traces, C.NCPU)
    paths = []
    nev = 0
    for i, part in enumerate(parts):
        p = os.path.join(work, "tr%d.ndjson" % i)
        with open(p, "w") as f:
            for t in part:
                for e in t:
                    f.write(json.dumps(e, separators=(",", ":")) + "\n")
                    nev += 1
        paths.append(p)

    def one(p):
        return C.run_tlc(DEV, spec or D["trace"], (spec or D["trace"]) + ".cfg", env={"TRACE": p},
                         timeout=3000, heap="3g")

    with ThreadPoolExecutor(C.NCPU) as ex:
        rs = list(ex.map(one, paths))
    verr = []
    for r in rs:
        C.tlc_ok(r, D["trace"])
        verr += r.verr
    shutil.rmtree(work, ignore_errors=True)
    return verr, len(traces), nev, rs
