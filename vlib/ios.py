"""IOS dialect: renderer, cmdparse and replica of specs/dev/Ios.tla (see asa.py)."""
import copy
from .common import Broken
from .asa import ADDR, RADDR, GW, RGW, SVC, PORTNAME, RPORT, SVCX, RSVCX

WNETS = {"n12": ("10.1.1.0", "0.0.0.3"), "n34": ("10.1.2.0", "0.0.0.3"), "n14": ("10.1.0.0", "0.0.255.255")}
RWNETS = {v: k for k, v in WNETS.items()}
MNETS = {"n12": ("10.1.1.0", "255.255.255.252"), "n34": ("10.1.2.0", "255.255.255.252"),
         "n14": ("10.1.0.0", "255.255.0.0"),
         "n13": ("10.1.0.0", "255.255.255.0")}      # routes only: the network address of n14 with a longer mask
RMNETS = {v: k for k, v in MNETS.items()}
IFNAME = {"E0": "Ethernet0", "E1": "Ethernet1", "E2": "Ethernet2", "E3": "Ethernet3"}
RIFNAME = {v: k for k, v in IFNAME.items()}
IFADDR = {"E0": "10.0.0.1", "E1": "10.0.1.1", "E2": "10.0.2.1", "E3": "10.0.3.1"}
LOGS = {"": "", "log": " log", "log-input": " log-input"}
# next hops; the longer forms of the command (outgoing interface, administrative distance) are routes of their own
IOSGW = dict(GW, gBd="10.0.0.2 250", gBi="Ethernet2 10.0.0.2")
RIOSGW = {v: k for k, v in IOSGW.items()}
PEER = {"p1": "10.9.9.1", "p2": "10.9.9.2", "p3": "10.9.9.3"}
RPEER = {v: k for k, v in PEER.items()}


def cm_key(name, seq):
    return "%s %d" % (name, seq)


def term(t):
    k, v = t["k"], t["v"]
    if k == "any":
        return "any"
    if k == "host":
        return "host " + ADDR[v]
    if k == "net":
        return "%s %s" % WNETS[v]
    raise Broken("bad IOS term %r" % (t,))


def ace_text(ace, dev):
    if ace["act"] == "remark":
        return "remark " + ace["svc"]
    if ace["svc"] in SVCX:
        proto, tail = SVCX[ace["svc"]][1 if dev else 0]
        return "%s %s %s %s%s%s" % (ace["act"], proto, term(ace["src"]), term(ace["dst"]), tail, LOGS[ace["log"]])
    proto, port = SVC[ace["svc"]]
    s = "%s %s %s %s" % (ace["act"], proto, term(ace["src"]), term(ace["dst"]))
    if port is not None:
        s += " eq %s" % (PORTNAME[(proto, port)] if dev else port)
    return s + LOGS[ace["log"]]


def route_text(r):
    if r["dst"] == "any":
        d = ("0.0.0.0", "0.0.0.0")
    elif r["dst"] in MNETS:
        d = MNETS[r["dst"]]
    else:
        d = (ADDR[r["dst"]], "255.255.255.255")
    vrf = ("vrf %s " % r["vrf"]) if r["vrf"] else ""
    return "ip route %s%s %s %s" % (vrf, d[0], d[1], IOSGW[r["gw"]])


def render(cfg, dev):
    out = []
    if dev:
        # every device print carries a login banner whose text looks like configuration; it has to be
        # skipped as a whole (ios.removeBanner), the route inside is NOT on the device
        out += ["banner motd ^CC", "ip route 10.1.0.0 255.255.0.0 10.0.0.2", " Unauthorized access prohibited", "^C"]
    xe = dev and cfg.get("xe")
    for n in sorted(cfg["acls"]):
        out.append("ip access-list extended " + n)
        for i, ace in enumerate(cfg["acls"][n]):
            out.append(" %s%s" % (("%d " % (10 * (i + 1))) if xe else "", ace_text(ace, dev)))
    if dev:
        # blocks the tool does not handle, printed directly behind the managed ACLs, with sub-commands that look
        # like ACL entries (and an unknown one-line command in between): not part of any managed ACL
        out += ["ipv6 access-list V6-unmanaged", " permit ipv6 any any", " deny ipv6 any any log", "ip sla 1",
                "mac access-list extended MAC-unmanaged", " permit any any", " deny any any"]
    cms = cfg.get("cmaps", {})
    for k in sorted(cms, key=lambda k: (cms[k]["name"], cms[k]["seq"])):
        e = cms[k]
        if e.get("typ", "ipsec-isakmp") == "gdoi":
            out.append("crypto map %s %d gdoi" % (e["name"], e["seq"]))
            out.append(" set group " + e["name"])
            continue
        out.append("crypto map %s %d ipsec-isakmp" % (e["name"], e["seq"]))
        if dev and not e["peers"]:
            out.append(" ! Incomplete")
        for pe in sorted(e["peers"]):
            out.append(" set peer " + PEER[pe])
        if e["fin"]:
            out.append(" set ip access-group %s in" % e["fin"])
        if e["fout"]:
            out.append(" set ip access-group %s out" % e["fout"])
    for i in sorted(cfg["intfs"]):
        f = cfg["intfs"][i]
        out.append("interface " + IFNAME[i])
        if f["vrf"]:
            out.append(" vrf forwarding " + f["vrf"])
        out.append(" ip address %s 255.255.255.0" % IFADDR[i])
        if f["in"]:
            out.append(" ip access-group %s in" % f["in"])
        if f["out"]:
            out.append(" ip access-group %s out" % f["out"])
        if cfg.get("ifcm", {}).get(i):
            out.append(" crypto map " + cfg["ifcm"][i])
        if dev:
            out.append("!")
    for r in sorted(cfg["routes"], key=lambda r: (r["vrf"], r["dst"], r["gw"])):
        out.append(route_text(r))
    return "\n".join(out) + "\n"


def merge_files(case):
    """(ipv6 text, raw text) for a merge case: IOS has a raw part only."""
    pa = case["tgt"]["parts"]
    raw = None
    if pa["pre"] or pa["app"]:
        raw = "ip access-list extended E0_raw\n" + "".join(" " + ace_text(a, False) + "\n" for a in pa["pre"])
        if pa["app"]:
            raw += "[APPEND]\n" + "".join(" " + ace_text(a, False) + "\n" for a in pa["app"])
        raw += "interface Ethernet0\n ip access-group E0_raw in\n"
    return None, raw


# ------------------------------------------------------------------ cmdparse

def _addr(tok):
    if tok[0] == "any":
        return {"k": "any", "v": ""}, tok[1:]
    if tok[0] == "host":
        return {"k": "host", "v": RADDR[tok[1]]}, tok[2:]
    if len(tok) > 1 and (tok[0], tok[1]) in RWNETS:
        return {"k": "net", "v": RWNETS[(tok[0], tok[1])]}, tok[2:]
    raise Broken("cmdparse: unknown IOS address %r" % tok[:2])


def parse_ace(tok):
    if tok[0] == "remark":
        return {"act": "remark", "svc": " ".join(tok[1:]), "src": {"k": "any", "v": ""},
                "dst": {"k": "any", "v": ""}, "log": ""}
    act, proto = tok[0], tok[1]
    src, rest = _addr(tok[2:])
    dst, rest = _addr(rest)
    port = None
    tailtok = [x for x in rest if x not in ("log", "log-input")]
    if (proto, " ".join(tailtok)) in RSVCX:
        logtok = rest[len(tailtok):]
        if logtok not in ([], ["log"], ["log-input"]):
            raise Broken("cmdparse: unknown IOS ACE tail %r" % rest)
        return {"act": act, "svc": RSVCX[(proto, " ".join(tailtok))], "src": src, "dst": dst, "log": (logtok or [""])[0]}
    if rest and rest[0] == "eq":
        port = RPORT.get(rest[1]) or int(rest[1])
        rest = rest[2:]
    log = ""
    if rest:
        if rest in (["log"], ["log-input"]):
            log = rest[0]
        else:
            raise Broken("cmdparse: unknown IOS ACE tail %r" % rest)
    svc = [k for k, v in SVC.items() if v == (proto, port)]
    if not svc:
        raise Broken("cmdparse: unknown service %s %s" % (proto, port))
    return {"act": act, "svc": svc[0], "src": src, "dst": dst, "log": log}


def parse_route(tok):
    # ip route [vrf V] D M G
    tok = tok[2:]
    vrf = ""
    if tok[0] == "vrf":
        vrf = tok[1]
        tok = tok[2:]
    ip, mask, gw = tok[0], tok[1], " ".join(tok[2:])
    if (ip, mask) == ("0.0.0.0", "0.0.0.0"):
        d = "any"
    elif (ip, mask) in RMNETS:
        d = RMNETS[(ip, mask)]
    elif mask == "255.255.255.255":
        d = RADDR[ip]
    else:
        raise Broken("cmdparse: unknown route destination %s %s" % (ip, mask))
    return {"vrf": vrf, "dst": d, "gw": RIOSGW[gw]}


def parse_cmd(line):
    tok = line.split()
    no = tok[0] == "no"
    if no:
        tok = tok[1:]
    if tok[:3] == ["ip", "access-list", "resequence"] and not no:
        return {"ev": "Resequence", "n": tok[3], "start": int(tok[4]), "step": int(tok[5])}
    if tok[:3] == ["ip", "access-list", "extended"]:
        return {"ev": "AclDelete" if no else "AclEnter", "n": tok[3]}
    if tok[0].isdigit():
        if no:
            if len(tok) != 1:
                raise Broken("cmdparse: bad numbered delete: " + line)
            return {"ev": "SeqDelete", "k": int(tok[0])}
        return {"ev": "SeqInsert", "k": int(tok[0]), "ace": parse_ace(tok[1:])}
    if tok[0] in ("permit", "deny", "remark"):
        if no:
            try:
                return {"ev": "AceDelete", "ace": parse_ace(tok)}
            except (Broken, KeyError, ValueError, IndexError):
                # `no <entry>` for an entry outside the universe: no device ACL of the universe holds it, the device
                # model answers "entry to be removed does not exist" (an entry to be ADDED must be interpretable)
                return {"ev": "AceDelete", "ace": {"act": tok[0], "svc": "?" + " ".join(tok[1:]), "src": {"k": "any", "v": ""},
                                                   "dst": {"k": "any", "v": ""}, "log": ""}}
        return {"ev": "SeqAppend", "ace": parse_ace(tok)}
    if tok[0] == "interface" and not no:
        return {"ev": "IntfEnter", "i": RIFNAME[tok[1]]}
    if tok[:2] == ["crypto", "map"] and len(tok) == 5 and tok[4] in ("ipsec-isakmp", "gdoi"):
        k = cm_key(tok[2], int(tok[3]))
        return {"ev": "CmDelete", "k": k} if no else {"ev": "CmEnter", "k": k, "name": tok[2], "seq": int(tok[3]), "typ": tok[4]}
    if tok[:2] == ["crypto", "map"] and len(tok) == 3:
        return {"ev": "IntfCm", "name": tok[2], "no": no}
    if tok[:2] == ["set", "peer"] and len(tok) == 3:
        return {"ev": "CmPeer", "p": RPEER[tok[2]], "no": no}
    if tok[:3] == ["set", "ip", "access-group"] and len(tok) == 5:
        return {"ev": "CmFilter", "n": tok[3], "dir": tok[4], "no": no}
    if tok[:2] == ["ip", "access-group"]:
        return {"ev": "IntfUnbind" if no else "IntfBind", "n": tok[2], "dir": tok[3]}
    if tok[:2] == ["ip", "route"]:
        return {"ev": "RouteDel" if no else "RouteAdd", "r": parse_route(tok)}
    if tok == ["exit"] and not no:
        return {"ev": "Exit"}
    raise Broken("cmdparse: command outside the known IOS output dialect: " + line)


def parse_script(text):
    evs = []
    for line in text.split("\n"):
        if not line.strip():
            continue
        parts = line.split("\\N ")
        if len(parts) > 2:
            raise Broken("cmdparse: more than two joined commands: " + line)
        for h, p in enumerate(parts):
            e = parse_cmd(p)
            e["half"] = 0 if len(parts) == 1 else h + 1
            evs.append(e)
    return evs


# ------------------------------------------------------------------ replica of Ios.tla

def same_line(a, b):
    return {**a, "log": ""} == {**b, "log": ""}


class Replica:
    def __init__(self, cfg):
        c = copy.deepcopy(cfg)
        self.acls = {n: [{"n": 10 * (i + 1), "ace": a} for i, a in enumerate(l)] for n, l in c["acls"].items()}
        self.intfs = c["intfs"]
        self.routes = c["routes"]
        self.cmaps = c.get("cmaps", {})
        self.ifcm = {i: c.get("ifcm", {}).get(i, "") for i in self.intfs}
        self.xe = c.get("xe", False)
        self.mode = ("", "")

    def state(self):
        return {"acls": {n: [copy.deepcopy(e["ace"]) for e in l] for n, l in self.acls.items()},
                "intfs": copy.deepcopy(self.intfs), "routes": copy.deepcopy(self.routes), "xe": self.xe,
                "cmaps": {k: dict(e, peers=sorted(e["peers"])) for k, e in self.cmaps.items()},
                "ifcm": dict(self.ifcm)}

    def referenced(self, n):
        return any(f["in"] == n or f["out"] == n for f in self.intfs.values()) or \
            any(e["fin"] == n or e["fout"] == n for e in self.cmaps.values())

    def apply(self, e):
        ev = e["ev"]
        if ev in ("Resume", "Exit"):
            self.mode = ("", "")
        elif ev == "Resequence":
            self.mode = ("", "")
            if e["n"] in self.acls:
                for i, x in enumerate(self.acls[e["n"]]):
                    x["n"] = e["start"] + i * e["step"]
        elif ev == "AclEnter":
            self.acls.setdefault(e["n"], [])
            self.mode = ("acl", e["n"])
        elif ev in ("SeqInsert", "SeqAppend", "SeqDelete", "AceDelete"):
            if self.mode[0] != "acl":
                return
            l = self.acls[self.mode[1]]
            if ev == "SeqInsert":
                if any(x["n"] == e["k"] for x in l):
                    return
                if e["ace"]["act"] != "remark" and any(same_line(x["ace"], e["ace"]) for x in l):
                    return
                pos = len([x for x in l if x["n"] < e["k"]])
                l.insert(pos, {"n": e["k"], "ace": copy.deepcopy(e["ace"])})
            elif ev == "SeqAppend":
                if e["ace"]["act"] != "remark" and any(same_line(x["ace"], e["ace"]) for x in l):
                    return
                k = l[-1]["n"] + 10 if l else 10
                l.append({"n": k, "ace": copy.deepcopy(e["ace"])})
            elif ev == "SeqDelete":
                l[:] = [x for x in l if x["n"] != e["k"]]
            else:
                l[:] = [x for x in l if x["ace"] != e["ace"]]
        elif ev == "AclDelete":
            self.mode = ("", "")
            if e["n"] in self.acls:       # IOS deletes a list that is still referenced (Ios.tla AclDelete)
                del self.acls[e["n"]]
        elif ev == "IntfEnter":
            self.mode = ("if", e["i"]) if e["i"] in self.intfs else ("", "")
        elif ev in ("IntfBind", "IntfUnbind"):
            if self.mode[0] != "if":
                return
            f = self.intfs[self.mode[1]]
            if ev == "IntfBind":
                if e["n"] in self.acls:
                    f[e["dir"]] = e["n"]
            elif f[e["dir"]] == e["n"]:
                f[e["dir"]] = ""
        elif ev == "CmEnter":
            self.cmaps.setdefault(e["k"], {"name": e["name"], "seq": e["seq"], "typ": e["typ"], "peers": [], "fin": "", "fout": ""})
            self.mode = ("cm", e["k"])
        elif ev == "CmDelete":
            self.mode = ("", "")
            self.cmaps.pop(e["k"], None)
        elif ev == "CmPeer":
            if self.mode[0] != "cm":
                return
            c = self.cmaps[self.mode[1]]
            if e["no"]:
                if e["p"] in c["peers"]:
                    c["peers"].remove(e["p"])
            elif e["p"] not in c["peers"]:
                c["peers"].append(e["p"])
        elif ev == "CmFilter":
            if self.mode[0] != "cm":
                return
            c = self.cmaps[self.mode[1]]
            f = "fin" if e["dir"] == "in" else "fout"
            if e["no"]:
                if c[f] == e["n"]:
                    c[f] = ""
            elif e["n"] in self.acls:
                c[f] = e["n"]
        elif ev == "IntfCm":
            if self.mode[0] != "if":
                return
            i = self.mode[1]
            if e["no"]:
                if self.ifcm[i] == e["name"]:
                    self.ifcm[i] = ""
            elif any(c["name"] == e["name"] for c in self.cmaps.values()):
                self.ifcm[i] = e["name"]
        elif ev == "RouteAdd":
            self.mode = ("", "")
            if e["r"] not in self.routes:
                self.routes.append(copy.deepcopy(e["r"]))
        elif ev == "RouteDel":
            self.mode = ("", "")
            if e["r"] in self.routes:
                self.routes.remove(e["r"])
        else:
            raise Broken("IOS replica: unknown event " + ev)
