from . import sessprops


def run(tier, replay=None):
    return sessprops.run("C11", tier, replay)
