from . import devprops


def run(tier, replay=None):
    return devprops.run("C01", tier, replay)
