"""C18 - raw and IPv6 parts are merged completely and in the documented order."""
import json, os, subprocess, tempfile, shutil
from . import common as C, devprops, devfam as F, asa

ASA_DEV = "interface Ethernet0/0\n nameif inside\n"
ASA_V4 = ("object-group network g0\n network-object host 10.1.1.1\n"
          "access-list inside_in extended permit ip object-group g0 any4\n"
          "access-group inside_in in interface inside\n")
IOS_DEV = "interface Ethernet0\n ip address 10.0.0.1 255.255.255.0\n"
IOS_V4 = ("ip access-list extended E0_in\n permit ip host 10.1.1.1 any\ninterface Ethernet0\n"
          " ip address 10.0.0.1 255.255.255.0\n ip access-group E0_in in\n")
LINUX_V4 = "*filter\n:INPUT DROP\n-A INPUT -j ACCEPT -s 10.1.1.1\n"

# (model, device text, netspoc text, raw text, name that the diagnostic must mention)
UNMERGEABLE = [
    ("ASA", ASA_DEV, ASA_V4, "unexpected foo\n", "unexpected foo"),
    ("ASA", ASA_DEV, ASA_V4, "access-list rawacl extended permit ip any4 any4\n", "rawacl"),
    ("ASA", ASA_DEV, ASA_V4, "access-list inside_in extended permit ip host 10.1.1.3 any4\naccess-group inside_in in interface inside\n"
                             "[APPEND]\naccess-list inside_in extended deny ip any4 any4\n"
                             "access-group inside_in in interface inside\n", "inside_in"),
    ("ASA", ASA_DEV, ASA_V4, "object-group network g0\n network-object host 10.1.1.2\n"
                             "access-list inside_in extended permit ip object-group g0 any4\n"
                             "access-group inside_in in interface inside\n", "g0"),
    ("ASA", ASA_DEV, ASA_V4, "object-group network unusedgrp\n network-object host 10.1.1.2\n", "unusedgrp"),
    ("IOS", IOS_DEV, IOS_V4, "unexpected foo\n", "unexpected foo"),
    ("IOS", IOS_DEV, IOS_V4, "ip access-list extended rawacl\n permit ip any any\n", "rawacl"),
    ("Linux", "", LINUX_V4, "foo bar\n", "foo bar"),
    ("Linux", "", LINUX_V4, "*filter\n-A NOCHAIN -j ACCEPT\n", "NOCHAIN"),
]


def unmergeable(rep, bins):
    root = C.sub("c18u")
    evs = []
    dev0 = {"acls": {}, "groups": {}, "binds": [], "routes": [], "ifs": ["inside"]}
    for i, (model, dev, v4, raw, name) in enumerate(UNMERGEABLE):
        d = tempfile.mkdtemp(dir=root)
        os.makedirs(os.path.join(d, "code"))
        open(os.path.join(d, "device"), "w").write(dev)
        open(os.path.join(d, "code", "router"), "w").write(v4)
        open(os.path.join(d, "code", "router.raw"), "w").write(raw)
        json.dump({"model": model, "name_list": ["router"], "ip_list": ["10.1.13.33"]},
                  open(os.path.join(d, "code", "router.info"), "w"))
        r = subprocess.run([os.path.join(bins, "drc"), "device", "code/router"], cwd=d, stdout=subprocess.PIPE,
                           stderr=subprocess.PIPE, text=True)
        tid = "u%d" % i
        evs += [{"t": tid, "ev": "Init", "fam": "U", "safe": False, "dev": dev0, "tgt": dev0},
                {"t": tid, "ev": "Unmergeable", "rc": r.returncode if r.returncode in (0, 1) else 1,
                 "crashed": r.returncode not in (0, 1), "warned": "WARNING>>>" in r.stderr, "named": name in r.stderr,
                 "model": model, "raw": raw, "stderr": r.stderr[-300:]}]
        if r.returncode not in (0, 1):
            rep.known_or_violation("", "planner crashed on unmergeable raw file (%s): %s" % (model, r.stderr[-300:]),
                                   {"property": "C18", "unmergeable": i})
    p = os.path.join(root, "u.ndjson")
    C.write_ndjson(p, evs)
    res = C.run_tlc(F.DEV, "AsaTrace", "AsaTrace.cfg", env={"TRACE": p}, timeout=300)
    C.tlc_ok(res, "AsaTrace (unmergeable raw)")
    for v in res.verr:
        if v[3] == "C18":
            i = int(str(v[1])[1:])
            rep.known_or_violation("", "%s: %s raw file %r -> %s" % (v[4], UNMERGEABLE[i][0], UNMERGEABLE[i][3],
                                                                      evs[2 * i + 1]["stderr"]),
                                   {"property": "C18", "unmergeable": i})
    rep.cov["unmergeable_raw_inputs"] = len(UNMERGEABLE)
    shutil.rmtree(root, ignore_errors=True)


def run(tier, replay=None):
    return devprops.run("C18", tier, replay, extra=unmergeable)
