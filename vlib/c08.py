from . import devprops


def run(tier, replay=None):
    return devprops.run("C08", tier, replay)
