"""C06, C09, C11, C17: real sessions against the simulators, validated by SessionTrace.tla.

Scenario space = fault-free scenarios enumerated by TLC from Session.tla (type x front-end x verb x
hostname x marker x HA x pending changes)  x  every line / request position of the real dialogue
x every fault kind.  The simulator transcript + exit status + status/history files form the trace.
"""
import json, os, re, shutil, urllib.parse
from concurrent.futures import ThreadPoolExecutor
from . import common as C
from . import session as S

SPEC = os.path.join(C.SPECS, "session")
CONSOLE_KINDS = ["reject", "warnreject", "garbage", "stall", "close"]
HTTPS_KINDS = ["status", "status:400", "status:403", "status:404", "status:503", "malformed", "eof", "nosuccess"]


def scenarios(rep):
    mc = C.run_tlc(SPEC, "Session", "SessionMC.cfg", workers=4, timeout=600)
    if mc.error or mc.rc != 0:
        raise C.Broken("Session.tla model check failed: %s" % (mc.error or mc.out[-1500:]))
    rep.add_states(mc)
    g = C.run_tlc(SPEC, "SessionGen", "SessionGen.cfg", timeout=300)
    if g.error or g.rc != 0:
        raise C.Broken("SessionGen failed: %s" % (g.error or g.out[-1500:]))
    pars = [json.loads(p[0]) for p in g.prints]
    if len(pars) < 50:
        raise C.Broken("SessionGen produced only %d scenarios" % len(pars))
    return pars


def sim_for(par, simcfg):
    typ = par["type"]
    sim = dict(simcfg)
    # wrong hostnames: unrelated, proper prefix of the expected name, expected name as prefix, other case
    wrong = {"other": "other-router", "prefix": "rout", "longer": "router2", "case": "ROUTER", "suffix": "xrouter"}
    sim["hostname"] = "router" if par["nameOK"] else wrong[par.get("namevar", "other")]
    if typ in S.HTTPS_TYPES:
        sim["marker"] = par["marker"] not in ("absent", "partial")
        sim["marker2"] = par["marker"] != "absent"          # the display-name of the second vsys
        sim["ha"] = par["ha"]
    else:
        sim["banner"] = "" if par["marker"] == "absent" else "managed by NetSPoC"
        sim.update(needenable=(typ != "linux"), enablepass=True, saveask=True, askyes=par.get("askyes", ""))
    return sim


def joined_second_halves(transcript, typ):
    """Line indexes that are the second half of a joined transmission (console types): the tool's
    own .cmp / script form is `a\\N b`; on the wire both lines arrive back to back.  They are
    recognised on the device side as `no X` directly followed by the same kind of command."""
    out = []
    ch = [r for r in transcript if r.get("class") == "change"]
    for a, b in zip(ch, ch[1:]):
        if b["i"] != a["i"] + 1:
            continue
        la, lb = a["line"], b["line"]
        if typ in ("asa", "ios") and la.startswith("no ") and not lb.startswith("no "):
            wa, wb = la.split()[1:3], lb.split()[0:2]
            if wa[0] == wb[0] or (la.split()[1].isdigit() and lb.split()[0].isdigit()):
                out.append(b["i"])
        if typ == "linux" and la.startswith("ip route del") and lb.startswith("ip route add"):
            out.append(b["i"])
    return out


def one_session(bins, root, par, fline=-1, fkind="", tag="s", timeout=1):
    typ = par["type"]
    simcfg, spoc = S.device_and_target(typ, par["n"] > 0, foreign=bool(par.get("foreign")))
    home = S.make_world(root, typ, spoc, marker_cfg=(par["marker"] != "unconfigured"), timeout=timeout)
    sim = sim_for(par, simcfg)
    if fline >= 0:
        if typ in S.HTTPS_TYPES:
            sim.update(fault_req=fline, fault_kind=fkind)
        else:
            sim.update(fault_line=fline, fault_kind=fkind)
    r = S.run_session(bins, home, typ, par["fe"], par["verb"], sim, tag=tag, verb_arg=par.get("verbspell"),
                      nolog=bool(par.get("nolog")))
    r["files"] = S.all_files(home)
    shutil.rmtree(home, ignore_errors=True)
    return r


def to_trace(tid, par, r, fline, fkind, joined2):
    tr = [{"t": tid, "ev": "Init", "par": {k: par[k] for k in ("type", "fe", "verb", "nameOK", "marker", "ha", "n")},
           "fline": fline, "fkind": fkind, "joined2": joined2}]
    end = {}
    for x in r["transcript"]:
        if "i" in x:
            # NSX: a changing request whose object id lacks the Netspoc prefix (C07); ids are the path segments
            # behind services/, groups/, gateway-policies/, rules/
            foreign = False
            if par["type"] == "nsx" and x["class"] == "change":
                ids = re.findall(r"/(?:services|groups|gateway-policies|rules)/([^/?]+)", x["line"])
                foreign = any(not i.startswith("Netspoc") for i in ids[:1])
            tr.append({"t": tid, "ev": "Recv", "i": x["i"], "class": x["class"], "fault": x["fault"],
                       "line": x["line"], "foreign": foreign})
        elif x.get("end"):
            end = x
    if not end and par.get("verbspell") and not any("i" in x for x in r["transcript"]):
        # the invocation was refused outright (unknown spelling of the verb): the device was never contacted
        end = {"changes": 0, "saved": False, "reload_pending": False}
    if not end:
        raise C.Broken("simulator wrote no end record (session %s)" % tid)
    st = r["status"]
    verbkey = "approve" if par["verb"] == "approve" else "compare"
    status = ""
    if isinstance(st, dict):
        status = st.get(verbkey, {}).get("result", "")
    hist_end = ""
    m = re.findall(r"END: (\w+)", r["history"])
    if m:
        hist_end = m[-1]
    text = r["stderr"] + r["stdout"] + "".join(b.decode("utf8", "replace") for p, b in r["files"]
                                                if "/log/" in p or p.startswith("logs/"))
    diag = "ERROR>>>" in text or "WARNING>>>" in text
    tr.append({"t": tid, "ev": "End", "rc": r["rc"], "status": status, "histEnd": hist_end, "diag": diag,
               "devChanges": end["changes"], "saved": end["saved"], "reloadPending": end["reload_pending"]})
    return tr


# ------------------------------------------------------------------ secrets (C17)

def secret_forms(s):
    q = urllib.parse.quote
    forms = {s, q(s, safe=""), q(s), urllib.parse.quote_plus(s), q(s, safe="/"), q(s, safe="=")}
    import base64
    forms.add(base64.b64encode(("admin:" + s).encode()).decode())       # HTTP basic authentication
    return {f.encode() for f in forms if len(f) >= 6}


def scan_leaks(r, secrets):
    """Return list of (secret name, where, context) for every occurrence."""
    hits = []
    blobs = [("stdout", r["stdout"].encode()), ("stderr", r["stderr"].encode())] + r["files"]
    for name, value in secrets.items():
        for form in secret_forms(value):
            for where, data in blobs:
                i = data.find(form)
                if i >= 0:
                    ctx = data[max(0, i - 100):i + len(form) + 20].decode("utf8", "replace")
                    hits.append((name, where, ctx))
    return hits


# ------------------------------------------------------------------ drivers

def plan_sessions(prop, tier, pars):
    """Which (par, fault positions) to run for the property."""
    jobs = []   # (par, 'faults' | 'plain')
    for p in pars:
        bad = (not p["nameOK"]) or p["marker"] in ("absent", "partial") or p["ha"] in ("passive", "suspended")
        if prop == "C06":
            if p["verb"] == "approve":
                if not p["nameOK"]:
                    for nv in ("other", "prefix", "longer", "case", "suffix"):
                        jobs.append((dict(p, namevar=nv), "plain"))
                else:
                    jobs.append((p, "plain"))
        elif prop == "C11":
            if p["verb"] == "compare":
                jobs.append((p, "plain"))
                if p["fe"] == "doapprove" and not bad and p["n"] > 0:
                    # other spellings of the verb: refused, or a compare - never an approve
                    for sp in ("Compare", "COMPARE"):
                        jobs.append((dict(p, verbspell=sp), "plain"))
                if p["fe"] == "drc" and not bad and p["n"] > 0:
                    # `drc -C` without a log directory
                    jobs.append((dict(p, nolog=True), "plain"))
                if not bad and p["n"] > 0 and (tier == "thorough" or p["fe"] == "doapprove"):
                    jobs.append((p, "faults"))
        elif prop in ("C09", "C17"):
            # `unconfigured` (no checkbanner) duplicates `present` - except for NSX, which has no marker at all
            if bad or (p["marker"] == "unconfigured" and p["type"] != "nsx") or p["ha"] == "off" and p["type"] == "panos":
                if prop == "C17" and p["verb"] == "approve" and p["fe"] == "doapprove":
                    jobs.append((p, "plain"))
                continue
            if p["n"] == 0:
                jobs.append((p, "plain"))
                if p["type"] not in S.HTTPS_TYPES and p["fe"] == "drc":
                    # ssh asks about an unknown host key first (old and new wording of the question)
                    for ay in ("old", "new"):
                        jobs.append((dict(p, askyes=ay), "plain" if tier == "quick" else "faults"))
                continue
            if p["verb"] == "compare" and tier == "quick" and p["fe"] == "drc":
                jobs.append((p, "plain"))
                continue
            jobs.append((p, "faults"))
    return jobs


def run(prop, tier, replay_file=None):
    level = "fault_enumeration" if prop == "C17" else "model_checking"
    rep = C.Report(prop, tier, level)
    bins = C.build()
    root = C.sub("sessions")
    if replay_file:
        obj = json.load(open(replay_file))
        todo = [(obj["par"], obj["fline"], obj["fkind"])]
        pars = [obj["par"]]
    else:
        pars = scenarios(rep)
        jobs = plan_sessions(prop, tier, pars)
        # happy paths first: they fix the number of positions of every dialogue
        with ThreadPoolExecutor(C.NCPU) as ex:
            base = list(ex.map(lambda j: one_session(bins, root, j[0]), jobs))
        todo = []
        for (p, mode), r in zip(jobs, base):
            todo.append((p, -1, ""))
            if mode != "faults":
                continue
            nl = len([x for x in r["transcript"] if "i" in x])
            kinds = HTTPS_KINDS if p["type"] in S.HTTPS_TYPES else CONSOLE_KINDS
            for k in range(nl):
                cls = [x for x in r["transcript"] if x.get("i") == k][0]["class"]
                if cls == "exit":
                    continue         # the tool does not wait for a reply to its final `exit`
                text = [x for x in r["transcript"] if x.get("i") == k][0]["line"]
                for kind in kinds:
                    if kind in ("reject", "garbage") and text == "":
                        continue     # no device rejects an empty line
                    if kind == "warnreject" and (cls != "change" or p["type"] == "linux"):
                        continue
                    if kind == "garbage" and cls != "change":
                        continue     # free-form output of read commands cannot be 'unexpected'
                    if kind == "reject" and p.get("askyes") and k == 0:
                        continue     # the answer to ssh's host-key question goes to ssh, not to the device: nothing rejects it
                    if kind == "stall" and tier == "quick" and k % 3 != (C.seed() % 3) and cls not in ("change", "save"):
                        continue     # every stall costs a timeout: quick samples the read positions
                    todo.append((p, k, kind))
                if cls == "save" and p["type"] in ("asa", "ios"):
                    todo.append((p, k, "nook"))
                if cls == "job" and not any(t[0] is p and t[2] == "jobfail" for t in todo[-200:]):
                    todo.append((p, k, "jobfail"))       # once per scenario: the final poll answers FAIL

    def runit(a):
        i, (p, fl, fk) = a
        r = one_session(bins, root, p, fl, fk, tag="f")
        if r["rc"] == -9:
            raise C.Broken("session timed out: %r %s %s" % (p, fl, fk))
        j2 = joined_second_halves(r["transcript"], p["type"])
        return to_trace(i + 1, p, r, fl, fk, j2), r

    with ThreadPoolExecutor(C.NCPU) as ex:
        results = list(ex.map(runit, enumerate(todo)))
    traces = [t for t, _ in results]
    path = os.path.join(root, "sessions.ndjson")
    C.write_ndjson(path, [e for t in traces for e in t])
    res = C.run_tlc(SPEC, "SessionTrace", "SessionTrace.cfg", env={"TRACE": path}, timeout=1800)
    C.tlc_ok(res, "SessionTrace")
    rep.add_states(res)
    nfault = sum(1 for _, fl, _ in todo if fl >= 0)

    if prop == "C17":
        nleak = 0
        for i, ((p, fl, fk), (t, r)) in enumerate(zip(todo, results)):
            secrets = {"password": S.PASSWORD}
            if p["type"] in S.HTTPS_TYPES:
                secrets["apikey"] = S.API_KEY
                if p["type"] == "nsx":
                    secrets["cookie"] = "C00K1E" + S.API_KEY
            for name, where, ctx in scan_leaks(r, secrets):
                kf = ""
                if p["type"] == "panos" and name == "apikey" and re.search(r'Get "https?://[^"]*key=', ctx):
                    kf = "PanosTransportURL"
                if kf and kf in rep.kf:
                    rep.known[kf] = rep.known.get(kf, 0) + 1
                    continue
                nleak += 1
                if nleak <= 10:
                    rep.known_or_violation("", "secret %s found in %s: ...%s..." % (name, where, ctx),
                                           {"property": "C17", "par": p, "fline": fl, "fkind": fk, "where": where})
        rep.cov.update({"evaluations": len(todo), "distinct_nontrivial": nfault,
                        "rule": "one real session per (scenario of Session.tla, fault position, fault kind); every file under "
                                "basedir and the log directories plus stdout/stderr is byte-scanned for the plain and URL-/query-/"
                                "path-encoded forms of the login password, the API key / session token / cookie; "
                                "non-trivial = session with an injected fault"})
    else:
        seen = set()
        for v in res.verr:
            _, tid, step, tag, detail, kf = v[:6]
            if tag != prop:
                continue
            p, fl, fk = todo[tid - 1]
            key = (tid, kf)
            if key in seen:
                continue
            seen.add(key)
            if kf and kf in rep.kf:
                rep.known[kf] = rep.known.get(kf, 0) + 1
                continue
            if not replay_file:
                t2, r2 = runit((tid - 1, (p, fl, fk)))
                p2 = os.path.join(root, "rerun.ndjson")
                C.write_ndjson(p2, t2)
                res2 = C.run_tlc(SPEC, "SessionTrace", "SessionTrace.cfg", env={"TRACE": p2}, timeout=300)
                if not any(x[3] == tag for x in res2.verr):
                    raise C.Broken("failure of session %s not reproduced on re-run: %s" % (tid, detail))
            r = results[tid - 1][1]
            rep.known_or_violation("", "%s: %s\n  scenario %s fault line %s kind %s\n  rc=%s status=%s\n  stderr: %s" % (
                tag, detail, json.dumps(p), fl, fk, r["rc"], r["status"], r["stderr"][-400:]),
                {"property": prop, "par": p, "fline": fl, "fkind": fk})
    rep.cov.update({
        "traces_validated_against_impl": len(traces), "sessions": len(traces), "sessions_with_fault": nfault,
        "scenarios_from_tlc": len(pars),
        "samples": [{"scenario": todo[i][0], "fault_line": todo[i][1], "fault_kind": todo[i][2],
                     "transcript": [x.get("line") for x in results[i][1]["transcript"] if "i" in x][:40],
                     "rc": results[i][1]["rc"]} for i in (0, len(todo) // 2, len(todo) - 1)],
        "checker_cmd": "tlc Session.tla (SessionMC.cfg); tlc SessionTrace.tla on %d recorded sessions" % len(traces),
    })
    rep.assumptions += [
        "device side = harness simulators (consim / httpsim): mode-aware, classify every received line / request by the "
        "device's own grammar; a password prompt never echoes",
        "Linux scp of the start-up files is skipped by the code under SIMULATE_ROUTER and is not observable",
    ]
    shutil.rmtree(root, ignore_errors=True)
    return rep.finish()
