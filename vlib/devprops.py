"""Drivers for the properties decided on the device family pipeline (devfam.py).

Every property names: dialects, planner mode, the VERR tags that belong to it and per tier the
input families (TLC-enumerated universes) with an optional seeded sample size.
"""
import json, os, random
from concurrent.futures import ThreadPoolExecutor
from . import common as C
from . import devfam as F

SAFE_FAMS = {"asa": {"F1", "F1L", "F3", "F4", "F4N"}, "ios": {"F1", "F1L", "F3", "F4", "F4M", "F4N"}, "linux": {"R1"}}

# family -> generator constants
ASA_FAMS = {"F4N": {"MaxLen": 3}, "F9": {"MaxLen": 2}, "F1L": {"MaxLen": 5}, "F1": {"MaxLen": 3}, "F2": {"MaxLen": 2}, "F3": {"MaxLen": 3}, "F4": {"MaxLen": 3},
            "F7": {"MaxLen": 2}}

PLAN = {
    "C04": dict(mode="conv", tags={"EQUIV", "FIXPOINT"},
                quick=[("nsx", "N1", 6000), ("nsx", "N2", None), ("nsx", "N3", None), ("nsx", "N4", 4000), ("nsx", "N5", None), ("nsx", "N6", 3000), ("nsx", "N7", None)],
                thorough=[("nsx", "N1", None), ("nsx", "N2", None), ("nsx", "N3", None), ("nsx", "N4", None), ("nsx", "N5", None), ("nsx", "N6", None), ("nsx", "N7", None)]),
    "C03": dict(mode="conv", tags={"EQUIV", "FIXPOINT"},
                quick=[("panos", "P1", None), ("panos", "P2", None), ("panos", "P3", None), ("panos", "P7", None), ("panos", "P4", None), ("panos", "P8", 5000), ("panos", "P9", 3000), ("panos", "P5", None)],
                thorough=[("panos", "P1", None), ("panos", "P2", None), ("panos", "P3", None), ("panos", "P7", None), ("panos", "P4", None), ("panos", "P8", None), ("panos", "P9", None), ("panos", "P5", None)]),
    "C05": dict(mode="conv", tags={"EQUIV", "FIXPOINT", "C08"},
                quick=[("linux", "R1", 8000), ("linux", "I1", 6000), ("linux", "I2", None), ("linux", "I3", None)],
                thorough=[("linux", "R1", None), ("linux", "I1", None), ("linux", "I2", None), ("linux", "I3", None)]),
    "C18": dict(mode="merge", tags={"C18"}, crash_is_violation=True,
                quick=[("asa", "M1", None), ("ios", "M1", None), ("linux", "M1", None), ("panos", "M1", None), ("nsx", "M1", None),
                       ("asa", "M2L", 4000), ("ios", "M2L", 4000), ("panos", "M2", None), ("panos", "M3", None), ("nsx", "M2", None), ("asav", "M6", None)],
                thorough=[("asa", "M1", None), ("ios", "M1", None), ("linux", "M1", None), ("panos", "M1", None), ("nsx", "M1", None),
                          ("asa", "M2L", None), ("ios", "M2L", None), ("panos", "M2", None), ("panos", "M3", None), ("nsx", "M2", None), ("asav", "M6", None)]),
    "C16": dict(mode="det", tags={"C16"}, spec="DetTrace", level="exploration",
                quick=[("asa", "F9", 5000), ("asa", "F2", 2000), ("asa", "F7", 1000), ("ios", "F8", 1000),
                       ("ios", "F3", 1000), ("ios", "V1L", 800), ("panos", "P2", 1500), ("panos", "P4", 1200), ("linux", "I1", 500), ("nsx", "N1", 1500), ("nsx", "N3", None),
                       ("asav", "F5", 800), ("asav", "F6L", 480), ("asav", "F6P", 300), ("asav", "F5U", 336), ("asav", "F5N", None),
                       ("panos", "P8", 600), ("asa", "F3", 600), ("asa", "F4", 500), ("asa", "F4N", None), ("asa", "F2S", 500), ("ios", "F4", 500), ("ios", "F4M", None), ("ios", "F4N", None),
                       ("linux", "R1", 500)],
                thorough=[("asa", "F9", None), ("asa", "F2", 30000), ("asa", "F7", 10000), ("asa", "F3", 5000),
                          ("ios", "F8", 20000), ("ios", "F3", 10000), ("ios", "F7", 5000), ("ios", "V1L", 8000),
                          ("panos", "P2", None), ("panos", "P4", None), ("linux", "I1", 5000), ("nsx", "N1", None), ("nsx", "N3", None),
                          ("asav", "F5", 8000), ("asav", "F6L", 8000), ("asav", "F6P", None), ("asav", "F5U", 5600), ("asav", "F5N", None),
                          ("panos", "P8", None), ("asa", "F4", None), ("asa", "F4N", None), ("asa", "F2S", 8000), ("ios", "F4", None), ("ios", "F4M", None), ("ios", "F4N", None), ("linux", "R1", None)]),
    "C02": dict(mode="conv", tags={"EQUIV", "FIXPOINT"},
                quick=[("ios", "F1L", 4000), ("ios", "F1", 5000), ("ios", "F8", 5000), ("ios", "F3", 3000),
                       ("ios", "F4", 2500), ("ios", "F4M", None), ("ios", "F4N", None), ("ios", "F7", 2000), ("ios", "V1L", 3000), ("ios", "V2", 600), ("ios", "S1", None)],
                thorough=[("ios", "F1L", None), ("ios", "F1", None), ("ios", "F8", 60000), ("ios", "F3", None),
                          ("ios", "F4", None), ("ios", "F4M", None), ("ios", "F4N", None), ("ios", "F7", None), ("ios", "V1L", None), ("ios", "V2", None), ("ios", "S1", None)]),
    "C01": dict(mode="conv", tags={"EQUIV", "FIXPOINT"},
                quick=[("asa", "F1L", 3000), ("asa", "F1", 4000), ("asa", "F2", 6000), ("asa", "F2S", 3000), ("asa", "S1", None), ("asa", "F3", 2000),
                       ("asa", "F4", 1500), ("asa", "F4N", None), ("asa", "F7", 2000), ("asav", "F5", 4000), ("asav", "F6L", 2400), ("asav", "F6P", 1200), ("asav", "F5U", 1680), ("asav", "F5N", None)],
                thorough=[("asa", "F1L", None), ("asa", "F1", None), ("asa", "F2", None), ("asa", "F2S", None), ("asa", "S1", None), ("asa", "F3", 30000),
                          ("asa", "F4", None), ("asa", "F4N", None), ("asa", "F7", 30000), ("asav", "F5", None), ("asav", "F6L", None), ("asav", "F6P", None), ("asav", "F5U", None), ("asav", "F5N", None)]),
    "C07": dict(mode="conv", tags={"C07"},
                quick=[("asav", "F5", 3000), ("asav", "F6L", 1800), ("asav", "F6P", 600), ("asav", "F5U", 1260), ("asav", "F5N", None), ("asa", "F7", 6000), ("asa", "F2", 1500), ("asa", "F3", 1000), ("asa", "F4", 1000), ("asa", "F4N", None),
                       ("ios", "F7", 5000), ("ios", "F3", 1500), ("ios", "F4", 1500), ("ios", "F4M", None), ("ios", "F4N", None), ("ios", "V1L", 1500), ("ios", "V2", 600), ("panos", "P7", None), ("panos", "P8", 2500),
                       ("panos", "P2", 1500), ("nsx", "N1", 1500), ("nsx", "N2", None)],
                thorough=[("asav", "F5", 150000), ("asav", "F6L", None), ("asav", "F6P", None), ("asav", "F5U", None), ("asav", "F5N", None), ("asa", "F7", 100000), ("asa", "F2", 30000), ("asa", "F3", 30000), ("asa", "F4", None), ("asa", "F4N", None),
                          ("ios", "F7", None), ("ios", "F3", None), ("ios", "F4", None), ("ios", "F4M", None), ("ios", "F4N", None), ("ios", "V1L", None), ("ios", "V2", None), ("panos", "P7", None), ("panos", "P8", None),
                          ("panos", "P2", None), ("panos", "P1", None), ("nsx", "N1", None), ("nsx", "N2", None)]),
    "C08": dict(mode="conv", tags={"C08"},
                quick=[("asav", "F5", 4000), ("asav", "F6L", 2400), ("asav", "F6P", 1200), ("asav", "F5U", 1680), ("asav", "F5N", None), ("asa", "F1", 2000), ("asa", "F2", 6000), ("asa", "F2S", 2000), ("asa", "F3", 2000),
                       ("asa", "F4", 1000), ("asa", "F4N", None), ("asa", "F7", 2000),
                       ("ios", "F1", 2500), ("ios", "F8", 2500), ("ios", "F3", 2000), ("ios", "F4", 1000), ("ios", "F4M", None), ("ios", "F4N", None),
                       ("ios", "F7", 1500), ("ios", "V1L", 1500), ("panos", "P1", None), ("panos", "P2", 2500), ("panos", "P3", None), ("panos", "P8", 2500), ("panos", "P9", 1500), ("panos", "P5", 1500),
                       ("nsx", "N1", 3000), ("nsx", "N2", None), ("nsx", "N3", None), ("nsx", "N6", 1500), ("nsx", "N7", 600)],
                thorough=[("asav", "F5", None), ("asav", "F6L", None), ("asav", "F6P", None), ("asav", "F5U", None), ("asav", "F5N", None), ("asa", "F1", None), ("asa", "F2", None), ("asa", "F2S", None), ("asa", "F3", 40000),
                          ("asa", "F4", None), ("asa", "F4N", None), ("asa", "F7", 40000),
                          ("ios", "F1", None), ("ios", "F8", 60000), ("ios", "F3", None), ("ios", "F4", None), ("ios", "F4M", None), ("ios", "F4N", None),
                          ("ios", "F7", None), ("ios", "V1L", None), ("panos", "P1", None), ("panos", "P2", None), ("panos", "P3", None), ("panos", "P8", None), ("panos", "P9", None), ("panos", "P5", None),
                          ("nsx", "N1", None), ("nsx", "N2", None), ("nsx", "N3", None), ("nsx", "N6", None), ("nsx", "N7", None)]),
    "C14": dict(mode="conv", tags={"C14"},
                quick=[("asa", "F1L", 6000), ("ios", "F1L", 6000), ("asa", "F1", 6000), ("asa", "F4", None), ("asa", "F4N", None), ("asa", "F3", 1500),
                       ("ios", "F1", 6000), ("ios", "F4", 4000), ("ios", "F4M", None), ("ios", "F4N", None), ("ios", "F3", 1500), ("linux", "R1", 8000)],
                thorough=[("asa", "F1L", None), ("ios", "F1L", None), ("asa", "F1", None), ("asa", "F4", None), ("asa", "F4N", None), ("asa", "F3", 40000),
                          ("ios", "F1", None), ("ios", "F4", None), ("ios", "F4M", None), ("ios", "F4N", None), ("ios", "F3", None), ("linux", "R1", None)]),
    "C10": dict(mode="resume", tags={"EQUIV", "FIXPOINT", "C08"},
                quick=[("asav", "F5", 600), ("asav", "F6L", 360), ("asav", "F6P", 400), ("asav", "F5U", 300), ("asav", "F5N", None), ("asa", "F1", 500), ("asa", "F2", 1200), ("asa", "F2S", 300), ("asa", "F3", 400),
                       ("asa", "F4", 400), ("asa", "F4N", None), ("asa", "F7", 400),
                       ("ios", "F1", 500), ("ios", "F8", 500), ("ios", "F3", 400), ("ios", "F4", 400), ("ios", "F4M", None), ("ios", "F4N", None), ("ios", "V1L", 300),
                       ("linux", "R1", 600), ("linux", "I2", 200), ("panos", "P1", 300), ("panos", "P2", 500),
                       ("panos", "P3", 300), ("panos", "P8", 300), ("panos", "P9", 300), ("panos", "P5", 300), ("nsx", "N1", 500), ("nsx", "N2", 200), ("nsx", "N6", 300), ("nsx", "N7", 300)],
                thorough=[("asav", "F5", 8000), ("asav", "F6L", 4800), ("asav", "F6P", None), ("asav", "F5U", 3360), ("asav", "F5N", None), ("asa", "F1", 8000), ("asa", "F2", 20000), ("asa", "F2S", 4000), ("asa", "F3", 6000),
                          ("asa", "F4", None), ("asa", "F4N", None), ("asa", "F7", 8000),
                          ("ios", "F1", 8000), ("ios", "F8", 8000), ("ios", "F3", 6000), ("ios", "F4", 6000), ("ios", "F4M", None), ("ios", "F4N", None), ("ios", "V1L", 5000),
                          ("linux", "R1", None), ("linux", "I1", 5000), ("linux", "I2", None),
                          ("panos", "P1", None), ("panos", "P2", None), ("panos", "P3", None), ("panos", "P8", 4000), ("panos", "P9", None), ("panos", "P5", None),
                          ("nsx", "N1", 6000), ("nsx", "N2", None), ("nsx", "N4", 4000), ("nsx", "N6", None), ("nsx", "N7", None)]),
}

IOS_FAMS = {"F4N": {"MaxLen": 3}, "F4M": {"MaxLen": 3}, "V2": {"MaxLen": 2}, "V1L": {"MaxLen": 3}, "F1L": {"MaxLen": 5}, "F1": {"MaxLen": 3}, "F3": {"MaxLen": 3}, "F4": {"MaxLen": 3}, "F7": {"MaxLen": 2},
            "F8": {"MaxLen": 3}}
LINUX_FAMS = {"I3": {"MaxLen": 2}, "R1": {"MaxLen": 3}, "I1": {"MaxLen": 2}, "I2": {"MaxLen": 2}, "M1": {"MaxLen": 3}}
ASA_FAMS["M1"] = {"MaxLen": 3}
ASA_FAMS["F2S"] = {"MaxLen": 2}
ASA_FAMS["S1"] = {"MaxLen": 2}
IOS_FAMS["S1"] = {"MaxLen": 2}
IOS_FAMS["M1"] = {"MaxLen": 3}
ASA_FAMS["M2L"] = {"MaxLen": 3}
IOS_FAMS["M2L"] = {"MaxLen": 3}
PANOS_FAMS = {"P5": {"MaxLen": 2}, "M3": {"MaxLen": 3}, "P9": {"MaxLen": 2}, "P8": {"MaxLen": 2}, "P4": {"MaxLen": 2}, "M2": {"MaxLen": 3}, "M1": {"MaxLen": 3}, "P1": {"MaxLen": 3}, "P2": {"MaxLen": 2}, "P3": {"MaxLen": 2}, "P7": {"MaxLen": 2}}
NSX_FAMS = {"N7": {"MaxLen": 3}, "N6": {"MaxLen": 3}, "N5": {"MaxLen": 3}, "N4": {"MaxLen": 3}, "M2": {"MaxLen": 3}, "M1": {"MaxLen": 3}, "N1": {"MaxLen": 3}, "N2": {"MaxLen": 2}, "N3": {"MaxLen": 3}}
FAM_CONSTS = {"asav": {"F5N": {"MaxLen": 3}, "F6P": {"MaxLen": 3}, "F5": {"MaxLen": 3}, "F6L": {"MaxLen": 3}, "F5U": {"MaxLen": 3}, "M6": {"MaxLen": 3}}, "asa": ASA_FAMS, "ios": IOS_FAMS, "linux": LINUX_FAMS, "panos": PANOS_FAMS, "nsx": NSX_FAMS}


def collect_cases(plan, rep):
    """Generate all families in parallel; returns {dialect: [cases]}."""
    only = os.environ.get("VERIF_FAMS")
    if only:
        # diagnostic sub-sweep ("asav/F6P,ios/F4M"): only these families of the tier's plan; never writes evidence
        os.environ["VERIF_NO_EVIDENCE"] = "1"
        plan = [p for p in plan if "%s/%s" % (p[0], p[1]) in only.split(",")]
        if not plan:
            raise C.Broken("VERIF_FAMS selects no family of this tier")
    rng = random.Random(C.seed())
    seeds = [rng.randrange(1 << 30) for _ in plan]

    def one(a):
        (dialect, fam, limit), sd = a
        cases, total = F.gen_cases(dialect, fam, FAM_CONSTS[dialect].get(fam), limit=limit,
                                   rng=random.Random(sd))
        return dialect, fam, cases, total

    with ThreadPoolExecutor(min(6, len(plan))) as ex:
        got = list(ex.map(one, zip(plan, seeds)))
    by = {}
    uni = {}
    n = 0
    for dialect, fam, cases, total in got:
        for c in cases:
            n += 1
            c["id"] = n
            c["safe"] = fam in SAFE_FAMS.get(dialect, ())
        by.setdefault(dialect, []).extend(cases)
        uni["%s/%s" % (dialect, fam)] = {"universe": total, "explored": len(cases),
                                          "exhaustive": len(cases) == total}
    rep.cov["families"] = uni
    rep.cov["exhaustive"] = all(u["exhaustive"] for u in uni.values())
    return by


def base_id(tid):
    return int(str(tid).split("/")[0])


def sample_of(dialect, case, result):
    mod = F.DIALECTS[dialect]["mod"]
    return {"family": "%s/%s" % (dialect, case["fam"]), "device": mod.render(case["dev"], True),
            "netspoc": mod.render(case["tgt"], False), "script": result.get("script", "")}


def run(prop, tier, replay_file=None, extra=None):
    P = PLAN[prop]
    rep = C.Report(prop, tier, P.get("level", "model_checking"))
    bins = C.build()
    if replay_file:
        obj = json.load(open(replay_file))
        by = {obj["dialect"]: [obj["case"]]}
    else:
        by = collect_cases(P[tier], rep)
    ntraces = nevents = ncases = nrej = nchanged = ntie = 0
    nfail = {}
    nruns = 0
    samples = []
    # bounded chunks: results (traces) of a chunk are validated and dropped before the next one is planned,
    # so the thorough tiers do not keep millions of events in memory
    CH = int(os.environ.get("VERIF_CHUNK", "25000"))
    work = [(d, cs[i:i + CH]) for d, cs in by.items() for i in range(0, len(cs), CH)]
    for dialect, cases in work:
        byid = {c["id"]: c for c in cases}
        res = F.run_cases(bins, dialect, cases, P["mode"])
        ncases += len(cases)
        nruns += sum(r.get("nruns", 0) for r in res)
        ntie += sum(1 for c in cases if c.get("tie"))
        rej = [r for r in res if r["rejected"]]
        nrej += len(rej)
        crashed = [r for r in rej if r["rejected"]["rc"] not in (0, 1)]
        if crashed:
            rep.notes.append("planner crashed (exit %s) on %d generated inputs, e.g. %s" % (
                crashed[0]["rejected"]["rc"], len(crashed), crashed[0]["rejected"]["stderr"][-300:]))
        if P.get("crash_is_violation"):
            for r in rej[:10]:
                c = byid[r["id"]]
                rep.known_or_violation("", "planner %s on mergeable input (exit %s): %s" % (
                    "crashed" if r["rejected"]["rc"] not in (0, 1) else "rejected", r["rejected"]["rc"],
                    r["rejected"]["stderr"][-300:]),
                    {"property": prop, "dialect": dialect, "tag": "crash", "detail": "", "case": c})
        nchanged += sum(1 for r in res if r["nev"])
        verr, nt, ne, tl = F.validate(dialect, res, tag=prop, spec=P.get("spec"))
        ntraces += nt
        nevents += ne
        for t in tl:
            rep.add_states(t)
        resid = {r["id"]: r for r in res}
        if not samples:
            for r in res:
                if r["nev"] >= 3 and len(samples) < 2:
                    samples.append(sample_of(dialect, byid[r["id"]], r))
        seen = set()
        for v in verr:
            _, tid, step, tag, detail, kf = v[:6]
            if tag == "HARNESS":
                raise C.Broken("replica and specification disagree (trace %s): %s" % (tid, detail))
            if tag not in P["tags"]:
                continue
            cid = base_id(tid)
            if (cid, tag, kf) in seen:
                continue
            seen.add((cid, tag, kf))
            if kf and kf in rep.kf:
                rep.known[kf] = rep.known.get(kf, 0) + 1
                continue
            case = byid[cid]
            nfail[tag] = nfail.get(tag, 0) + 1
            if nfail[tag] > 25:
                continue          # counted below; the first ones are reproduced and written out
            if not replay_file and nfail[tag] <= 3:
                # deterministic re-run of the single case against the real planner and TLC
                res2 = F.run_cases(bins, dialect, [case], P["mode"])
                v2, _, _, _ = F.validate(dialect, res2, tag=prop + "rerun", spec=P.get("spec"))
                if not any(x[3] == tag for x in v2) and P["mode"] != "det":
                    raise C.Broken("failure %s of case %s not reproduced on re-run" % (tag, cid))
            mod = F.DIALECTS[dialect]["mod"]
            rep.known_or_violation("", "%s (%s) trace %s step %s family %s/%s\n--- device\n%s--- netspoc\n%s--- script\n%s" % (
                tag, detail, tid, step, dialect, case["fam"], mod.render(case["dev"], True),
                mod.render(case["tgt"], False), resid[cid].get("script", "")),
                {"property": prop, "dialect": dialect, "tag": tag, "detail": detail, "case": case})
    if extra and not replay_file:
        extra(rep, bins)
    if nfail:
        rep.cov["failing_inputs_by_tag"] = nfail
    if not replay_file and ncases and (ncases - nrej) * 2 < ncases:
        raise C.Broken("planner rejected %d of %d generated inputs - nothing to decide" % (nrej, ncases))
    rep.cov.update({
        "traces_validated_against_impl": ntraces, "events_validated": nevents,
        "inputs": ncases, "inputs_rejected_by_tool": nrej, "inputs_with_changes": nchanged,
        "samples": samples or [{"note": "replay"}],
        "checker_cmd": "tlc %s on %d traces recorded from drc built from /repo" % (
            ", ".join(sorted({F.DIALECTS[d]["trace"] for d in by})), ntraces),
    })
    if P["mode"] == "det":
        rep.cov["evaluations"] = nruns
        rep.cov["distinct_nontrivial"] = ntie
        rep.cov["rule"] = ("inputs enumerated by TLC (families above); every input is planned 4 times, tie-bearing inputs "
                           "(HasTie in the generator: several identical object-groups on the device) 12 times in separate "
                           "processes; non-trivial = distinct tie-bearing input")
    rep.assumptions += [
        "device semantics = specs/dev/*.tla (guards sourced from the property text, code comments and expected outputs)",
        "harness renderer / cmdparse are trusted for the tool's own closed output dialect; an unknown command is exit 2",
    ]
    return rep.finish()
