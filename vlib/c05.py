from . import devprops


def run(tier, replay=None):
    return devprops.run("C05", tier, replay)
