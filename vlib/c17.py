from . import sessprops


def run(tier, replay=None):
    return sessprops.run("C17", tier, replay)
