"""Real sessions of drc / do-approve against the harness' device simulators.

A `world` is a scratch basedir ($HOME) with .netspoc-approve, credentials, policies/p1/code,
status/, history/, lock/.  The simulator's transcript - not the tool's own logs - is the trace.
"""
import json, os, shutil, subprocess, tempfile, time
from . import common as C
from . import asa, ios

# characters that need URL escaping, ones (`~`) that are legal unescaped, and regexp operators in the MIDDLE of the word
# (`Z*q`, `q+r`, `r?s`: a pattern built from the unquoted password does not match the password at all)
PASSWORD = "p@ss_w/o&=%1Z*q+r?s~t"
TEST_TIME = "2024-Sep-29 16:19:50"

T = lambda k, v: {"k": k, "v": v}
ACE = lambda act, svc, s, d: {"act": act, "svc": svc, "src": s, "dst": d, "log": ""}

# device / target pairs with pending changes (incl. one \N-joined entry each)
ASA_DEV = {"acls": {"inside_in": [ACE("permit", "ip", T("host", "h1"), T("host", "h3")),
                                  ACE("permit", "tcp80", T("any", ""), T("host", "h3"))]},
           "groups": {}, "binds": [{"acl": "inside_in", "if": "inside", "dir": "in"}],
           "routes": [{"fam": "4", "if": "inside", "dst": "n12", "gw": "gA"}], "ifs": ["inside"]}
ASA_TGT = {"acls": {"inside_in": [ACE("permit", "ip", T("host", "h1"), T("host", "h3")),
                                  ACE("deny", "ip", T("host", "h2"), T("any", "")),
                                  ACE("permit", "tcp80", T("any", ""), T("host", "h3"))]},
           "groups": {}, "binds": [{"acl": "inside_in", "if": "inside", "dir": "in"}],
           "routes": [{"fam": "4", "if": "inside", "dst": "n12", "gw": "gB"}], "ifs": []}
# VPN part of the ASA scenario: the kinds of commands for which the tool tolerates device warnings
# (access-list, crypto map, tunnel-group) all occur in the change list
ASA_VPN = """access-list crypto-inside-1 extended permit ip any4 10.0.2.0 255.255.255.0
crypto ipsec ikev1 transform-set Trans1 esp-3des esp-md5-hmac
crypto map crypto-inside 1 match address crypto-inside-1
crypto map crypto-inside 1 set peer 193.155.130.20
crypto map crypto-inside 1 set ikev1 transform-set Trans1
crypto map crypto-inside interface inside
tunnel-group 193.155.130.20 type ipsec-l2l
tunnel-group 193.155.130.20 ipsec-attributes
 peer-id-validate nocheck
"""
IOS_DEV = {"acls": {"E0_in": [ACE("permit", "ip", T("host", "h1"), T("host", "h3")),
                              ACE("permit", "tcp80", T("any", ""), T("host", "h3"))]},
           "intfs": {"E0": {"vrf": "", "in": "E0_in", "out": ""}},
           "routes": [{"vrf": "", "dst": "n12", "gw": "gA"}], "xe": False}
IOS_TGT = {"acls": {"E0_in": [ACE("permit", "ip", T("host", "h1"), T("host", "h3")),
                              ACE("deny", "ip", T("host", "h2"), T("any", "")),
                              ACE("permit", "tcp80", T("any", ""), T("host", "h3"))]},
           "intfs": {"E0": {"vrf": "", "in": "E0_in", "out": ""}},
           "routes": [{"vrf": "", "dst": "n12", "gw": "gB"}], "xe": False}
LINUX_ROUTES_DEV = "10.1.1.0/30 via 10.0.0.1\n10.9.0.0/16 via 10.0.0.1\n"
LINUX_IPT_DEV = "*filter\n:INPUT DROP\n-A INPUT -j ACCEPT -s 10.1.1.1 -d 10.1.2.1 -p tcp --dport 23\nCOMMIT\n"
LINUX_TGT = ("ip route add 10.1.1.0/30 via 10.0.0.2\nip route add 10.9.0.0/16 via 10.0.0.1\n\n"
             "*filter\n:INPUT DROP\n-A INPUT -j ACCEPT -s 10.1.1.1 -d 10.1.2.1 -p tcp --dport 22\n")
LINUX_SAME = ("ip route add 10.1.1.0/30 via 10.0.0.1\nip route add 10.9.0.0/16 via 10.0.0.1\n\n"
              "*filter\n:INPUT DROP\n-A INPUT -j ACCEPT -s 10.1.1.1 -d 10.1.2.1 -p tcp --dport 23\n")

PAN_INNER = """<rulebase><security><rules>
<entry name="r1">
<action>allow</action>
<from><member>z1</member></from>
<to><member>z2</member></to>
<source><member>any</member></source>
<destination><member>any</member></destination>
<service><member>tcp 80</member></service>
<application><member>any</member></application>
<rule-type>interzone</rule-type>
</entry>
</rules></security></rulebase>
<service>
<entry name="tcp 80">
 <protocol>
 <tcp><port>80</port></tcp>
 </protocol>
</entry>
</service>"""
# two vsys with the same content: the change commands of the vsys are sent one vsys after the other and
# committed once at the end
PAN_TGT = ('<config><devices><entry name="localhost.localdomain"><vsys><entry name="vsys1">\n' + PAN_INNER +
           '\n</entry><entry name="vsys2">\n' + PAN_INNER + '\n</entry></vsys></entry></devices></config>\n')
NSX_CFG = {
    "groups": [{"id": "Netspoc-g0", "expression": [{"id": "id", "resource_type": "IPAddressExpression",
                                                     "ip_addresses": ["10.1.1.10", "10.1.1.20"]}]}],
    "policies": [{"id": "Netspoc-v1", "resource_type": "GatewayPolicy", "rules": [
        {"resource_type": "Rule", "id": "r1", "scope": ["/infra/tier-0s/v1"], "direction": "OUT",
         "ip_protocol": "IPV4", "sequence_number": 20, "action": "ALLOW",
         "source_groups": ["/infra/domains/default/groups/Netspoc-g0"], "destination_groups": ["10.1.2.30"],
         "services": ["/infra/services/Netspoc-tcp_80"]},
        {"resource_type": "Rule", "id": "r2", "scope": ["/infra/tier-0s/v1"], "direction": "OUT",
         "ip_protocol": "IPV4", "sequence_number": 30, "action": "DROP",
         "source_groups": ["ANY"], "destination_groups": ["ANY"], "services": ["ANY"]}]}],
    "services": [{"id": "Netspoc-tcp_80", "service_entries": [
        {"id": "id", "resource_type": "L4PortSetServiceEntry", "l4_protocol": "TCP",
         "destination_ports": ["80"], "source_ports": []}]}],
}
# objects on the manager whose ids lack the Netspoc prefix: outside Netspoc's scope (C07)
NSX_FOREIGN = {
    "groups": [{"id": "Custom-g", "expression": [{"id": "x1", "resource_type": "IPAddressExpression",
                                                   "ip_addresses": ["10.7.7.7"]}]},
               # unreferenced objects whose id only CONTAINS the prefix, or spells it in lower case
               {"id": "Backup-Netspoc-g0", "expression": [{"id": "x2", "resource_type": "IPAddressExpression",
                                                            "ip_addresses": ["10.1.1.10"]}]},
               {"id": "netspoc-lower", "expression": [{"id": "x3", "resource_type": "IPAddressExpression",
                                                        "ip_addresses": ["10.7.7.8"]}]}],
    "policies": [{"id": "Custom-v1", "resource_type": "GatewayPolicy", "rules": [
        {"resource_type": "Rule", "id": "c1", "scope": ["/infra/tier-0s/v1"], "direction": "OUT",
         "ip_protocol": "IPV4", "sequence_number": 10, "action": "ALLOW",
         "source_groups": ["/infra/domains/default/groups/Custom-g"], "destination_groups": ["ANY"],
         "services": ["/infra/services/Custom-s"]}]}],
    "services": [{"id": "Custom-s", "service_entries": [
        {"id": "id", "resource_type": "L4PortSetServiceEntry", "l4_protocol": "TCP",
         "destination_ports": ["81"], "source_ports": []}]},
        {"id": "Old-Netspoc-tcp_81", "service_entries": [
            {"id": "id", "resource_type": "L4PortSetServiceEntry", "l4_protocol": "TCP",
             "destination_ports": ["81"], "source_ports": []}]}],
}
API_KEY = "LUFRPT1kZq9/Xy7vTT=="         # `/` and `=` have URL-encoded forms (the tool inserts the key unescaped)
HTTPS_TYPES = ("panos", "nsx")

MODEL = {"asa": "ASA", "ios": "IOS", "linux": "Linux", "panos": "PAN-OS", "nsx": "NSX"}


def device_and_target(typ, changes, foreign=False):
    """(device config text(s) for the simulator, Netspoc code text)"""
    if typ == "asa":
        return ({"config": asa.render(ASA_DEV, True) + ("" if changes else ASA_VPN)},
                asa.render(ASA_TGT if changes else ASA_DEV, False) + ASA_VPN)
    if typ == "ios":
        return {"config": ios.render(IOS_DEV, True)}, ios.render(IOS_TGT if changes else IOS_DEV, False)
    if typ == "linux":
        return {"routes": LINUX_ROUTES_DEV, "iptables": LINUX_IPT_DEV}, (LINUX_TGT if changes else LINUX_SAME)
    if typ == "panos":
        return {"config": "" if changes else PAN_INNER}, PAN_TGT
    if typ == "nsx":
        if foreign:
            base = {"groups": [], "policies": [], "services": []} if changes else NSX_CFG
            dev = {k: base[k] + NSX_FOREIGN[k] for k in base}
            return {"config": json.dumps(dev)}, json.dumps(NSX_CFG)
        return {"config": "" if changes else json.dumps(NSX_CFG)}, json.dumps(NSX_CFG)
    raise C.Broken("no scenario for " + typ)


def make_world(root, typ, netspoc, marker_cfg=True, timeout=1, password=PASSWORD):
    home = tempfile.mkdtemp(prefix="world-", dir=root)
    cfg = "basedir = %s\nsystemuser = admin\ntimeout = %d\nlogin_timeout = %d\n" % (home, timeout, timeout)
    if marker_cfg:
        cfg += "checkbanner = NetSPoC\n"
    open(os.path.join(home, ".netspoc-approve"), "w").write(cfg)
    open(os.path.join(home, "credentials"), "w").write("* admin %s\n" % password)
    code = os.path.join(home, "policies", "p1", "code")
    os.makedirs(code)
    os.symlink("p1", os.path.join(home, "policies", "current"))
    open(os.path.join(code, "router"), "w").write(netspoc)
    json.dump({"model": MODEL[typ], "name_list": ["router"], "ip_list": ["10.1.13.33"]},
              open(os.path.join(code, "router.info"), "w"))
    for d in ("lock", "status", "history", "logs"):
        os.makedirs(os.path.join(home, d))
    return home


def read_transcript(path):
    recs = []
    if os.path.exists(path):
        for ln in open(path):
            try:
                recs.append(json.loads(ln))
            except ValueError:
                pass
    return recs


def run_session(bins, home, typ, fe, verb, sim, name="router", tag="s", wait=True, extra_env=None,
                code_arg=None, verb_arg=None, nolog=False):
    """Run one real session.  sim: scenario dict for consim (console types).  Returns a result dict
    (or the Popen object when wait=False)."""
    log = os.path.join(home, "transcript-%s.ndjson" % tag)
    sc = dict(sim)
    sc.setdefault("type", typ)
    sc.setdefault("hostname", "router")
    sc["log"] = log
    scen = os.path.join(home, "scenario-%s.json" % tag)
    json.dump(sc, open(scen, "w"))
    simproc = None
    if typ in HTTPS_TYPES:
        sc.setdefault("key", API_KEY)
        sc.setdefault("job_pend", 2)        # the commit job of PAN-OS is pending for two polls
        json.dump(sc, open(scen, "w"))
        simproc = subprocess.Popen([os.path.join(bins, "httpsim"), scen], stdin=subprocess.PIPE,
                                   stdout=subprocess.PIPE, text=True)
        url = simproc.stdout.readline().strip()
        if not url.startswith("https://"):
            raise C.Broken("httpsim did not start: %r" % url)
        simulate = url
    else:
        simulate = "%s %s" % (os.path.join(bins, "consim"), scen)
    env = dict(os.environ, HOME=home, TEST_TIME=TEST_TIME, SIMULATE_ROUTER=simulate)
    env.pop("LANG", None)
    if extra_env:
        env.update(extra_env)
    if fe == "drc":
        cmd = [os.path.join(bins, "drc")] + (["-C"] if verb == "compare" else []) + \
              ([] if nolog else ["-L", os.path.join(home, "logs")]) + \
              [code_arg or os.path.join(home, "policies", "p1", "code", name)]     # nolog: `drc` without a log directory
    else:
        cmd = [os.path.join(bins, "do-approve"), verb_arg or verb, name]
    p = subprocess.Popen(cmd, cwd=home, env=env, stdin=subprocess.DEVNULL, stdout=subprocess.PIPE,
                         stderr=subprocess.PIPE, text=True)
    if not wait:
        return p, log, simproc
    try:
        so, se = p.communicate(timeout=60)
    except subprocess.TimeoutExpired:
        p.kill()
        so, se = p.communicate()
        stop_sim(simproc)
        return {"rc": -9, "stdout": so, "stderr": se + "\nHARNESS: session timed out", "transcript": read_transcript(log),
                "home": home, "status": None, "history": ""}
    stop_sim(simproc)
    res = collect(home, p.returncode, so, se, log)
    if simproc:
        res["url"] = simulate
    return res


def stop_sim(simproc):
    if simproc:
        try:
            simproc.stdin.close()
            simproc.wait(timeout=10)
        except Exception:
            simproc.kill()


def collect(home, rc, so, se, log):
    res = {"rc": rc, "stdout": so, "stderr": se, "home": home}
    # the simulator writes its end record when the pty closes; give it a moment
    for _ in range(100):
        tr = read_transcript(log)
        if tr and tr[-1].get("end"):
            break
        time.sleep(0.01)
    res["transcript"] = tr
    st = os.path.join(home, "status", "router")
    res["status"] = None
    if os.path.exists(st):
        try:
            res["status"] = json.load(open(st))
        except ValueError:
            res["status"] = "damaged"
    h = os.path.join(home, "history", "router")
    res["history"] = open(h).read() if os.path.exists(h) else ""
    return res


def all_files(home):
    """(relative path, bytes) of every file the tool may have written."""
    out = []
    for root, _, files in os.walk(home):
        for f in files:
            p = os.path.join(root, f)
            rel = os.path.relpath(p, home)
            if rel.startswith(("scenario-", "transcript-", "credentials", ".netspoc-approve")):
                continue
            if rel.startswith("policies/p1/code"):
                continue
            try:
                out.append((rel, open(p, "rb").read()))
            except OSError:
                pass
    return out
