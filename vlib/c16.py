from . import devprops


def run(tier, replay=None):
    return devprops.run("C16", tier, replay)
