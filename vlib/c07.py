from . import devprops


def run(tier, replay=None):
    return devprops.run("C07", tier, replay)
