"""C07 - configuration outside Netspoc's scope is never touched."""
import json, os, shutil
from . import common as C, devprops, sessprops as SP


def nsx_sessions(rep, bins):
    """NSX: the filter `id has the Netspoc prefix` lives in the session loader, not in the planner, so it is
    exercised with real sessions: the simulated manager also holds a policy, a group and a service without the
    prefix; SessionTrace.tla flags every changing request that addresses such an object."""
    root = C.sub("c07nsx")
    pars = [dict(type="nsx", fe=fe, verb="approve", nameOK=True, marker="unconfigured", ha="off", n=n, foreign=True)
            for fe in ("drc", "doapprove") for n in (0, 1)]
    traces, results = [], []
    for i, p in enumerate(pars):
        r = SP.one_session(bins, root, p)
        results.append(r)
        traces.append(SP.to_trace(i + 1, p, r, -1, "", []))
    path = os.path.join(root, "s.ndjson")
    C.write_ndjson(path, [e for t in traces for e in t])
    res = C.run_tlc(SP.SPEC, "SessionTrace", "SessionTrace.cfg", env={"TRACE": path}, timeout=600)
    C.tlc_ok(res, "SessionTrace (NSX objects without prefix)")
    rep.add_states(res)
    nchg = sum(1 for r in results for x in r["transcript"] if x.get("class") == "change")
    if nchg == 0:
        raise C.Broken("NSX sessions with foreign objects sent no change request at all")
    for v in res.verr:
        if v[3] in ("C07", "C06", "C09"):
            p = pars[v[1] - 1]
            rep.known_or_violation(v[5] if len(v) > 5 else "", "%s: %s (NSX session %s)" % (v[3], v[4], json.dumps(p)),
                                   {"property": "C07", "nsx_session": p})
    rep.cov["nsx_sessions_with_foreign_objects"] = len(pars)
    rep.cov["nsx_change_requests_checked"] = nchg
    shutil.rmtree(root, ignore_errors=True)


def run(tier, replay=None):
    return devprops.run("C07", tier, replay, extra=nsx_sessions)
