from . import devprops


def run(tier, replay=None):
    return devprops.run("C02", tier, replay)
