"""`./check selftest`: demonstrates that the trace specifications are bound to what the real planner did.

Valid traces of real planner scripts are accepted; the same traces with ONE recorded field corrupted
(a command dropped, a command's argument changed, the second-compare count changed, the target
changed) must be rejected by TLC with the expected tag.  Exit 0 if every corruption is rejected."""
import copy, json
from . import common as C, devfam as F, devprops as P


def _tags(dialect, res, tag):
    verr, nt, ne, _ = F.validate(dialect, res, tag=tag)
    return {v[3] for v in verr}


def run():
    bins = C.build()
    ok = True
    for dialect, fam in (("ios", "F1"), ("asa", "F1"), ("panos", "P1"), ("nsx", "N1"), ("linux", "R1"), ("asav", "F5")):
        cases, total = F.gen_cases(dialect, fam, P.FAM_CONSTS[dialect][fam], limit=400)
        for i, c in enumerate(cases):
            c["id"] = i + 1
            c["safe"] = False
        res = [r for r in F.run_cases(bins, dialect, cases, "conv") if not r["rejected"] and r["nev"] >= 2]
        base = _tags(dialect, res, "self0") - {"C07", "C14"}
        known = {"EQUIV", "FIXPOINT", "C08"} & base          # known findings of the family, if any
        res = res[:60]
        results = {}
        # 1. drop the first change command of every trace: the replica's post state no longer matches
        r1 = copy.deepcopy(res)
        for r in r1:
            for t in r["traces"]:
                del t[1]
        results["command dropped -> HARNESS/EQUIV"] = bool(_tags(dialect, r1, "self1") & {"HARNESS", "EQUIV", "C08"})
        # 2. claim that the second compare printed something
        r2 = copy.deepcopy(res)
        for r in r2:
            for t in r["traces"]:
                t[-1]["n2"] = 3
        results["second compare count changed -> FIXPOINT"] = "FIXPOINT" in _tags(dialect, r2, "self2")
        # 3. swap the target of the Init record for the device: the final state is no longer equivalent
        r3 = copy.deepcopy(res)
        for r in r3:
            for t in r["traces"]:
                t[0]["tgt"] = copy.deepcopy(t[0]["dev"])
        results["target replaced -> EQUIV"] = "EQUIV" in _tags(dialect, r3, "self3")
        for k, v in results.items():
            print("selftest %-6s %-45s %s" % (dialect, k, "rejected (good)" if v else "ACCEPTED (bad)"))
            ok = ok and v
        print("selftest %-6s unmodified traces: tags %s" % (dialect, sorted(base) or "none"))
    print("SELFTEST " + ("OK" if ok else "FAILED"))
    return 0 if ok else 1
