"""Linux dialect: abstract routes / iptables rulesets <-> text in two spellings
(Netspoc spelling, kernel spelling of `ip route show` / `iptables-save`), cmdparse of the tool's
output (ip route add/del, iptables-restore file) and the replica of specs/dev/Linux.tla.

The spelling tables below are an explicit, reviewed part of the trusted base."""
import copy
from .common import Broken

DST = {"any": ("0.0.0.0/0", "default"), "n14": ("10.1.0.0/16", "10.1.0.0/16"),
       "n12": ("10.1.1.0/30", "10.1.1.0/30"), "h1": ("10.1.1.1", "10.1.1.1"),
       # same network address as n14, other prefix length
       "n24": ("10.1.0.0/24", "10.1.0.0/24")}
RDST = {}
for k, (a, b) in DST.items():
    RDST[a] = k
    RDST[b] = k
RDST["10.1.1.1/32"] = "h1"
HOP = {"gA": "10.0.0.1", "gB": "10.0.0.2"}
RHOP = {v: k for k, v in HOP.items()}

# abstract rule id -> (Netspoc spelling, kernel spelling) of everything behind `-A CHAIN`
RULES = {
    "tcp80":    ("-j ACCEPT -s 10.1.1.1 -d 10.1.2.1 -p tcp --dport 80",
                 "-s 10.1.1.1/32 -d 10.1.2.1/32 -p tcp -m tcp --dport 80 -j ACCEPT"),
    "udprange": ("-j ACCEPT -d 10.1.2.0/30 -p UDP --dport 1024:",
                 "-d 10.1.2.0/30 -p udp -m udp --dport 1024:65535 -j ACCEPT"),
    "state":    ("-j ACCEPT -m state --state ESTABLISHED,RELATED",
                 "-m state --state RELATED,ESTABLISHED -j ACCEPT"),
    "negsrc":   ("-j DROP ! -s 10.1.1.2",
                 "! -s 10.1.1.2/32 -j DROP"),
    "mark":     ("-j MARK --set-mark 1",
                 "-j MARK --set-xmark 0x1/0xffffffff"),
    "nosyn":    ("-j ACCEPT -p tcp ! --syn",
                 "-p tcp -m tcp ! --tcp-flags FIN,SYN,RST,ACK SYN -j ACCEPT"),
    "loglevel": ("-j LOG --log-level debug",
                 "-j LOG --log-level 7"),
    # further spellings (family I3); rules that differ in one feature only are separate ids, so a normaliser
    # that is too coarse (merges them) is as visible as one that is too fine
    "tcp8080":  ("-j ACCEPT -s 10.1.1.1 -d 10.1.2.1 -p tcp --dport 8080",
                 "-s 10.1.1.1/32 -d 10.1.2.1/32 -p tcp -m tcp --dport 8080 -j ACCEPT"),
    "tcp8000":  ("-j ACCEPT -s 10.1.1.1 -d 10.1.2.1 -p tcp --dport 8000",
                 "-s 10.1.1.1/32 -d 10.1.2.1/32 -p tcp -m tcp --dport 8000 -j ACCEPT"),
    "udp1024y": ("-j ACCEPT -d 10.1.2.0/30 -p udp --dport 1024:6500",
                 "-d 10.1.2.0/30 -p udp -m udp --dport 1024:6500 -j ACCEPT"),
    # addresses that differ in their last digit / in the prefix length only
    "src3":     ("-j DROP -s 10.1.1.3", "-s 10.1.1.3/32 -j DROP"),
    "src22":    ("-j DROP -s 10.1.1.22", "-s 10.1.1.22/32 -j DROP"),
    "net22":    ("-j DROP -s 10.2.0.0/22", "-s 10.2.0.0/22 -j DROP"),
    "net23":    ("-j DROP -s 10.2.0.0/23", "-s 10.2.0.0/23 -j DROP"),
    "tcp80net": ("-j ACCEPT -s 10.1.1.0/31 -d 10.1.2.1 -p tcp --dport 80",
                 "-s 10.1.1.0/31 -d 10.1.2.1/32 -p tcp -m tcp --dport 80 -j ACCEPT"),
    "tcp80h0":  ("-j ACCEPT -s 10.1.1.0 -d 10.1.2.1 -p tcp --dport 80",
                 "-s 10.1.1.0/32 -d 10.1.2.1/32 -p tcp -m tcp --dport 80 -j ACCEPT"),
    "sport":    ("-j ACCEPT -p TCP --sport 1024: --dport 22",
                 "-p tcp -m tcp --sport 1024:65535 --dport 22 -j ACCEPT"),
    "lowports": ("-j ACCEPT -p udp --dport :1023",
                 "-p udp -m udp --dport 0:1023 -j ACCEPT"),
    "udp1024x": ("-j ACCEPT -d 10.1.2.0/30 -p udp --dport 1024:65000",
                 "-d 10.1.2.0/30 -p udp -m udp --dport 1024:65000 -j ACCEPT"),
    "vrrp":     ("-j ACCEPT -p vrrp", "-p 112 -j ACCEPT"),
    "proto113": ("-j ACCEPT -p 113", "-p 113 -j ACCEPT"),
    "icmp8":    ("-j ACCEPT -p icmp --icmp-type 8", "-p icmp -m icmp --icmp-type 8 -j ACCEPT"),
    "icmp0":    ("-j ACCEPT -p icmp --icmp-type 0", "-p icmp -m icmp --icmp-type 0 -j ACCEPT"),
    "state1":   ("-j ACCEPT -m state --state ESTABLISHED", "-m state --state ESTABLISHED -j ACCEPT"),
    "possrc":   ("-j DROP -s 10.1.1.2", "-s 10.1.1.2/32 -j DROP"),
    "negold":   ("-j DROP -s ! 10.1.1.3", "! -s 10.1.1.3/32 -j DROP"),
    "markhex":  ("-j MARK --set-mark 0x10", "-j MARK --set-xmark 0x10/0xffffffff"),
    "markmask": ("-j MARK --set-xmark 0x1/0xff", "-j MARK --set-xmark 0x1/0xff"),
    "loginfo":  ("-j LOG --log-level 6", "-j LOG --log-level 6"),
    # flags without argument (their value in the tool's option map is the empty string)
    "frag":     ("-j ACCEPT -f", "-f -j ACCEPT"),
    "logtcp":   ("-j LOG --log-tcp-options", "-j LOG --log-tcp-options"),
    "logip":    ("-j LOG --log-ip-options", "-j LOG --log-ip-options"),
    "ifin":     ("-j ACCEPT -i eth1", "-i eth1 -j ACCEPT"),
    "ifout":    ("-j ACCEPT -o eth1", "-o eth1 -j ACCEPT"),
    "drop":     ("-j DROP", "-j DROP"),
    "rawdrop":  ("-j DROP -s 10.1.2.2", "-s 10.1.2.2/32 -j DROP"),
}
ACT = {"src3": "DROP", "src22": "DROP", "net22": "DROP", "net23": "DROP", "tcp8000": "ACCEPT", "udp1024y": "ACCEPT", "tcp8080": "ACCEPT", "tcp80net": "ACCEPT", "tcp80h0": "ACCEPT", "sport": "ACCEPT", "lowports": "ACCEPT",
       "udp1024x": "ACCEPT", "vrrp": "ACCEPT", "proto113": "ACCEPT", "icmp8": "ACCEPT", "icmp0": "ACCEPT",
       "state1": "ACCEPT", "possrc": "DROP", "negold": "DROP", "markhex": "MARK", "markmask": "MARK",
       "loginfo": "LOG", "ifin": "ACCEPT", "ifout": "ACCEPT", "frag": "ACCEPT", "logtcp": "LOG", "logip": "LOG",
       "tcp80": "ACCEPT", "udprange": "ACCEPT", "state": "ACCEPT", "negsrc": "DROP", "mark": "MARK",
       "nosyn": "ACCEPT", "loglevel": "LOG", "drop": "DROP", "rawdrop": "DROP"}


def rule_text(chain, r, dev):
    return "-A %s %s" % (chain, RULES[r["id"]][1 if dev else 0])


def render_tables(tables, dev):
    out = []
    for t in sorted(tables):
        out.append("*" + t)
        for c in sorted(tables[t]):
            pol = tables[t][c]["policy"]
            out.append(":%s %s%s" % (c, pol, " [0:0]" if dev else ""))
        for c in sorted(tables[t]):
            for r in tables[t][c]["rules"]:
                out.append(rule_text(c, r, dev))
        if dev:
            out.append("COMMIT")
    return out


def render(cfg, dev):
    out = []
    for r in sorted(cfg["routes"], key=lambda r: (r["dst"], r["hop"])):
        d = DST[r["dst"]][1 if dev else 0]
        out.append("ip route add %s via %s%s" % (d, HOP[r["hop"]], " dev eth0" if dev else ""))
    if dev:
        # routes the tool has to ignore
        out.append("ip route add 10.0.0.0/24 dev eth0 proto kernel scope link src 10.0.0.5")
        out.append("ip route add 169.254.0.0/16 dev eth0 scope link metric 1000")
        # routes installed by a routing daemon / at boot: not static routes, although destination and next hop
        # are ones the universe uses
        out.append("ip route add 10.1.0.0/24 via 10.0.0.2 dev eth0 proto 186")
        out.append("ip route add 10.1.1.1 via 10.0.0.2 dev eth0 proto boot")
    out += render_tables(cfg["tables"], dev)
    return "\n".join(out) + "\n"


def merge_files(case):
    pa = case["tgt"]["parts"]
    raw = None
    xc, xt = pa.get("xchain"), pa.get("xtable", "none") != "none"
    if pa["pre"] or pa["app"] or xc or xt:
        lines = []
        if pa["pre"] or pa["app"] or xc:
            lines = ["*filter", ":INPUT DROP"] + ([":c9 -"] if xc else [])
            lines += [rule_text("INPUT", r, False) for r in pa["pre"]]
            if xc:
                lines.append(rule_text("c9", {"id": "tcp8080"}, False))
            if pa["app"]:
                lines += ["[APPEND]"] + [rule_text("INPUT", r, False) for r in pa["app"]]
        if xt:
            lines += ["*mangle", ":PREROUTING ACCEPT", rule_text("PREROUTING", {"id": "markhex"}, False)]
        raw = "\n".join(lines) + "\n"
    return None, raw


# ------------------------------------------------------------------ cmdparse

def parse_route(tok):
    # ip route add|del D via H [dev X]
    d, hop = tok[3], tok[5]
    if d not in RDST or hop not in RHOP:
        raise Broken("cmdparse: unknown Linux route %r" % tok)
    return {"dst": RDST[d], "hop": RHOP[hop]}


REV = {}
for _id, (_n, _k) in RULES.items():
    REV[_n] = _id
    REV[_k] = _id


def parse_ruleset(lines):
    tables = {}
    t = None
    for ln in lines:
        ln = ln.strip()
        if not ln or ln.startswith("#") or ln == "COMMIT":
            continue
        if ln.startswith("*"):
            t = tables.setdefault(ln[1:], {})
        elif ln.startswith(":"):
            w = ln[1:].split()
            t[w[0]] = {"policy": w[1], "rules": []}
        elif ln.startswith("-A "):
            w = ln.split(None, 2)
            body = w[2] if len(w) > 2 else ""
            rid = REV.get(body)
            if rid is None:
                t[w[1]]["rules"].append({"id": "?" + body, "act": "?"})
            else:
                t[w[1]]["rules"].append({"id": rid, "act": ACT[rid]})
        else:
            raise Broken("cmdparse: unknown line in iptables-restore file: " + ln)
    return tables


def parse_script(text):
    evs = []
    lines = text.split("\n")
    i = 0
    while i < len(lines):
        line = lines[i]
        i += 1
        if not line.strip():
            continue
        if line.startswith("iptables differs"):
            evs.append({"ev": "LoadRuleset", "tables": parse_ruleset(lines[i:]), "half": 0, "why": line})
            break
        parts = line.split("\\N ")
        for h, p in enumerate(parts):
            tok = p.split()
            if tok[:3] == ["ip", "route", "add"]:
                e = {"ev": "RouteAdd", "r": parse_route(tok)}
            elif tok[:3] == ["ip", "route", "del"]:
                e = {"ev": "RouteDel", "r": parse_route(tok)}
            else:
                raise Broken("cmdparse: command outside the known Linux output dialect: " + p)
            e["half"] = 0 if len(parts) == 1 else h + 1
            evs.append(e)
    return evs


def init_extra(evs):
    """extra fields of the Init event: did the planner report a difference of the rulesets?"""
    return {"iptdiff": any(e["ev"] == "LoadRuleset" for e in evs)}


# ------------------------------------------------------------------ replica of Linux.tla

class Replica:
    def __init__(self, cfg):
        c = copy.deepcopy(cfg)
        self.routes = c["routes"]
        self.tables = c["tables"]

    def state(self):
        return {"routes": copy.deepcopy(self.routes), "tables": copy.deepcopy(self.tables)}

    def apply(self, e):
        ev = e["ev"]
        if ev == "RouteAdd":
            if e["r"] not in self.routes:
                self.routes.append(copy.deepcopy(e["r"]))
        elif ev == "RouteDel":
            if e["r"] in self.routes:
                self.routes.remove(e["r"])
        elif ev == "LoadRuleset":
            for t, v in e["tables"].items():
                self.tables[t] = copy.deepcopy(v)
        elif ev == "Resume":
            pass
        else:
            raise Broken("Linux replica: unknown event " + ev)
