"""C19 - the policy database always points to a complete, compiled policy.

NewPolicy.tla (labels of bin/newpolicy.sh, 2 instances, good/bad commits, kill at every label) is
model-checked.  The UNMODIFIED script is then run in scratch worlds (real git, stub netspoc/mail)
under a DEBUG-trap tracer that snapshots the policy database before every simple command and
kills the script (process group) at the k-th command, for EVERY k; an undisturbed run follows.
NewPolicyTrace.tla evaluates the properties on the observed snapshots.
"""
import json, os, re, shutil, time
from concurrent.futures import ThreadPoolExecutor
from . import common as C
from . import npworld as N

SPEC = os.path.join(C.SPECS, "newpol")
PRE = re.compile(r"^(BASE=|GIT_URL=|get-netspoc-approve-conf |POLICYDB=|CURRENT=|NEXT=|exec 9<>|main$|flock -n 9$|exit 1$)")


def num(s):
    m = re.match(r"p(\d+)$", s or "")
    return int(m.group(1)) if m else 0


def dirs_of(s):
    out = []
    for d in s.split(","):
        if d.startswith("p"):
            out.append({"n": num(d[:-1]), "ok": d.endswith("+")})
    return out


def cmd_events(tid, trace):
    ev = []
    for x in trace:
        if x.get("killed"):
            ev.append({"t": tid, "ev": "Killed", "inst": x["inst"]})
        else:
            ev.append({"t": tid, "ev": "Cmd", "inst": x["inst"], "n": x["n"], "cur": num(x["cur"]),
                       "dirs": dirs_of(x["dirs"]), "failed": x["failed"], "pre": bool(PRE.match(x["cmd"])),
                       "cmd": x["cmd"][:80]})
    return ev


# history classes: (name, list of environment commits before the disturbed run)
HISTORIES = [
    ("first-policy", []),
    ("good-commit", ["run", ("c", True, True, None)]),
    ("bad-commit-revertable", ["run", ("c", False, True, None)]),
    ("bad-commit-no-email", ["run", ("c", False, False, None)]),
    ("bad-then-good", ["run", ("c", False, False, None), "run", ("c", True, True, None)]),
    ("two-bad", ["run", ("c", False, True, None), ("c", False, True, None)]),
    ("policy-file-up", ["run", ("c", True, True, 123)]),
    ("current-removed", ["run", ("c", True, True, None), "rmcurrent"]),
    ("failed-then-new-bad", ["run", ("c", False, False, None), "run", ("c", False, False, None)]),
    # a good commit is pushed while the disturbed run compiles (by the stub compiler, once)
    ("commit-during-compile", ["run", ("c", True, True, None), "pushflag"]),
    # the same while a commit that does NOT compile (and can be reverted) is compiled: the revert must hit that commit
    ("bad-commit-push-during-compile", ["run", ("c", False, True, None), "pushflag"]),
]


def build_history(bins, root, name, steps):
    w = N.World(os.path.join(root, "tmpl-" + name), bins)
    for i, s in enumerate(steps):
        if s == "run":
            rc, out = w.run(1, os.path.join(w.dir, "setup%d.trace" % i))
            if rc != 0:
                raise C.Broken("setup run failed in history %s: %s" % (name, out[-300:]))
        elif s == "rmcurrent":
            os.remove(os.path.join(w.dir, "policies", "current"))
        elif s == "pushflag":
            open(os.path.join(w.dir, "push-during-compile"), "w").write("x")
        else:
            w.commit(good=s[1], email=s[2], policy=s[3])
    return w


def run(tier, replay_file=None):
    rep = C.Report("C19", tier, "model_checking")
    bins = C.build()
    root = C.sub("c19")
    mc = C.run_tlc(SPEC, "NewPolicy", "NewPolicyMC.cfg", workers=C.NCPU, timeout=1500, heap="8g",
                   consts={"MaxRev": 3 if tier == "quick" else 4})
    if mc.error or mc.rc != 0:
        raise C.Broken("NewPolicy.tla model check failed: %s" % (mc.error or mc.out[-1500:]))
    rep.add_states(mc)
    pre = C.run_tlc(SPEC, "NewPolicy", "NewPolicyPre.cfg", workers=4, timeout=600)
    if not (pre.error and "Recovered" in pre.out):
        raise C.Broken("self-test: the unrepaired model is not rejected by TLC")

    hists = HISTORIES
    def prep(h):
        name, steps = h
        w = build_history(bins, root, name, steps)
        # number of simple commands of the undisturbed run of this history
        probe = w.copy(os.path.join(root, "probe-" + name))
        rc, out = probe.run(1, os.path.join(probe.dir, "probe.trace"))
        n = len(N.read_trace(os.path.join(probe.dir, "probe.trace")))
        shutil.rmtree(probe.dir, ignore_errors=True)
        return name, w, n

    with ThreadPoolExecutor(len(hists)) as ex:
        prepared = list(ex.map(prep, hists))
    worlds = {name: w for name, w, _ in prepared}
    jobs = []
    for name, _, n in prepared:
        full = tier == "thorough" or name in ("first-policy", "good-commit", "bad-commit-revertable", "failed-then-new-bad",
                                              "commit-during-compile", "bad-commit-push-during-compile")
        for k in range(1, n + 1):
            if full or k % 3 == C.seed() % 3:
                jobs.append({"hist": name, "kill": k, "kill2": 0})
        if tier == "thorough":
            for k in range(1, n + 1, 3):
                for k2 in range(1, n + 1, 4):
                    jobs.append({"hist": name, "kill": k, "kill2": k2})
        else:
            for k in range(20, n + 1, 9):
                jobs.append({"hist": name, "kill": k, "kill2": (k * 7) % n + 1})
        jobs.append({"hist": name, "kill": 0, "kill2": 0, "two": True})
    if replay_file:
        jobs = [json.load(open(replay_file))["job"]]

    def one(a):
        i, job = a
        tid = i + 1
        w = worlds[job["hist"]].copy(os.path.join(root, "r%d" % tid))
        ev = [{"t": tid, "ev": "Init"}]
        cur_before = num(w.state()["cur"])
        if job.get("two"):
            # two simultaneous instances: the first is held right after it got the lock
            g = os.path.join(w.dir, "gate")
            t1, t2 = os.path.join(w.dir, "a.trace"), os.path.join(w.dir, "b.trace")
            a_ = w.start(1, t1, gate_at=14, gate=g)
            t0 = time.time()
            while not os.path.exists(g + ".reached") and time.time() - t0 < 20 and a_.poll() is None:
                time.sleep(0.005)
            rcb, outb = w.run(2, t2)
            open(g + ".release", "w").write("x")
            a_.communicate(timeout=60)
            # both traces share no counter: B ran completely while A was held after its 14th command
            ta, tb = N.read_trace(t1), N.read_trace(t2)
            ev += cmd_events(tid, ta[:14]) + cmd_events(tid, tb) + [{"t": tid, "ev": "RunEnd", "inst": 2, "rc": rcb}]
            ev += cmd_events(tid, ta[14:]) + [{"t": tid, "ev": "RunEnd", "inst": 1, "rc": a_.returncode}]
            if rcb != 1:
                ev.append({"t": tid, "ev": "Cmd", "inst": 2, "n": 0, "cur": 0, "dirs": [], "failed": False,
                           "pre": False, "cmd": "second instance was not refused (exit %s)" % rcb})
        else:
            for j, k in enumerate([job["kill"], job["kill2"]]):
                if not k:
                    continue
                tr = os.path.join(w.dir, "kill%d.trace" % j)
                rc, out = w.run(1, tr, kill_at=k)
                ev += cmd_events(tid, N.read_trace(tr))
                ev.append({"t": tid, "ev": "RunEnd", "inst": 1, "rc": rc})
        # the undisturbed run
        tr = os.path.join(w.dir, "final.trace")
        rc, out = w.run(1, tr)
        ev += cmd_events(tid, N.read_trace(tr))
        ev.append({"t": tid, "ev": "RunEnd", "inst": 1, "rc": rc})
        st = w.state()
        ev.append({"t": tid, "ev": "Final", "cur": num(st["cur"]), "curContent": st["curContent"], "head": st["head"],
                   "headGood": st["headGood"], "best": st["best"], "curBefore": cur_before, "rc": rc})
        shutil.rmtree(w.dir, ignore_errors=True)
        return ev

    with ThreadPoolExecutor(C.NCPU) as ex:
        results = list(ex.map(one, enumerate(jobs)))
    path = os.path.join(root, "c19.ndjson")
    C.write_ndjson(path, [e for evs in results for e in evs])
    res = C.run_tlc(SPEC, "NewPolicyTrace", "NewPolicyTrace.cfg", env={"TRACE": path}, timeout=1800, heap="6g")
    C.tlc_ok(res, "NewPolicyTrace")
    rep.add_states(res)
    seen = set()
    unrepro, reproduced = [], 0
    for v in res.verr:
        _, tid, step, tag, detail, kf = v[:6]
        if (tid, detail) in seen:
            continue
        seen.add((tid, detail))
        if reproduced >= 8:
            break          # enough reproduced failures to report; every further one costs up to four runs
        if kf and kf in rep.kf:
            rep.known[kf] = rep.known.get(kf, 0) + 1
            continue
        job = jobs[tid - 1]
        if not replay_file:
            # the position of a kill is counted in simple commands; a script whose command count depends on timing
            # (e.g. on whether two git commits fall into the same second) does not hit the same spot every time:
            # the failure has to show a second time within three further runs of the same job
            again = False
            for _ in range(3):
                ev2 = one((0, job))
                p2 = os.path.join(root, "rerun.ndjson")
                C.write_ndjson(p2, ev2)
                res2 = C.run_tlc(SPEC, "NewPolicyTrace", "NewPolicyTrace.cfg", env={"TRACE": p2}, timeout=300)
                if any(x[4] == detail for x in res2.verr):
                    again = True
                    break
            if not again:
                # not a verdict; the check is broken only if NO failure of this run could be reproduced
                unrepro.append("failure of job %s not reproduced in three further runs: %s" % (job, detail))
                continue
            reproduced += 1
        kcmd = [e for e in results[tid - 1] if e["ev"] == "Cmd" and e.get("n") == job["kill"]]
        rep.known_or_violation("", "%s\n  history %s, killed before command %s (%s)%s" % (
            detail, job["hist"], job["kill"], kcmd[0]["cmd"] if kcmd else "-",
            ", then before command %s of the next run" % job["kill2"] if job["kill2"] else ""),
            {"property": "C19", "job": job})
    if unrepro and not reproduced:
        raise C.Broken(unrepro[0])
    if unrepro:
        rep.notes.append("%d further failures were not reproduced and are not reported, e.g. %s" % (len(unrepro), unrepro[0]))
    rep.cov.update({
        "traces_validated_against_impl": len(jobs), "script_runs": sum(1 + bool(j["kill"]) + bool(j["kill2"]) for j in jobs),
        "histories": [h for h, _ in hists], "kill_points": len([j for j in jobs if j["kill"]]),
        "samples": [jobs[0], jobs[len(jobs) // 2], jobs[-1]],
        "checker_cmd": "tlc NewPolicy.tla (NewPolicyMC.cfg); tlc NewPolicyTrace.tla on %d recorded runs" % len(jobs),
    })
    rep.assumptions += [
        "external commands (git, netspoc) are atomic steps: the script is killed between simple commands, not inside one",
        "netspoc is a stub that compiles unless the topology contains BAD; mail is a stub",
    ]
    for w in worlds.values():
        shutil.rmtree(w.dir, ignore_errors=True)
    shutil.rmtree(root, ignore_errors=True)
    return rep.finish()
