from . import sessprops


def run(tier, replay=None):
    return sessprops.run("C09", tier, replay)
