from . import devprops


def run(tier, replay=None):
    return devprops.run("C03", tier, replay)
