"""C03 - PAN-OS approve converges.  The quantifier of the property includes IPv6 / raw merges and several vsys:
next to the conv families (devprops) the merge families with an explicit effective target (panos/M2: a vsys that
already holds rules, panos/M3: two vsys) are planned by the real tool, executed on the device machine and the final
rulebase of every targeted vsys is compared with that effective target (PanosTrace `Equivalent` on parts.merged)."""
import json
from . import common as C, devprops, devfam as F


def merges(rep, bins):
    n = 0
    for fam in ("M2", "M3"):
        cases, total = F.gen_cases("panos", fam, devprops.PANOS_FAMS[fam])
        for i, c in enumerate(cases):
            c["id"] = i + 1
            c["safe"] = False
        res = F.run_cases(bins, "panos", cases, "merge")
        if sum(1 for r in res if r["rejected"]) * 2 > len(cases):
            raise C.Broken("planner rejected most inputs of panos/%s" % fam)
        verr, nt, ne, tl = F.validate("panos", res, tag="C03m" + fam)
        for t in tl:
            rep.add_states(t)
        n += nt
        byid = {c["id"]: c for c in cases}
        rb = {r["id"]: r for r in res}
        seen = set()
        for v in verr:
            _, tid, step, tag, detail, kf = v[:6]
            if tag == "HARNESS":
                raise C.Broken("replica and specification disagree (panos/%s trace %s): %s" % (fam, tid, detail))
            cid = devprops.base_id(tid)
            if tag not in ("C18", "EQUIV", "FIXPOINT") or (cid, tag) in seen:
                continue
            seen.add((cid, tag))
            if len(seen) > 10:
                continue
            case = byid[cid]
            mod = F.DIALECTS["panos"]["mod"]
            v6, raw = mod.merge_files(json.loads(json.dumps(case)))
            rep.known_or_violation(kf, "%s (%s): final rulebase differs from the effective (merged) target, family panos/%s\n"
                                   "--- netspoc\n%s--- raw\n%s--- script\n%s" % (
                                       tag, detail, fam, mod.render(case["tgt"], False), raw or "", rb[cid].get("script", "")),
                                   {"property": "C03", "dialect": "panos", "tag": tag, "detail": detail, "case": case, "mode": "merge"})
    rep.cov["merge_traces_validated"] = n
    rep.cov["merge_families"] = ["panos/M2", "panos/M3"]


def run(tier, replay=None):
    return devprops.run("C03", tier, replay, extra=merges)
