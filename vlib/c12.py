"""C12 - at most one approve / compare session per device at any time.

Lock.tla is model-checked (all interleavings of 3 processes with kills); schedule classes
(holder front-end x verb x phase at which the contender starts x contender front-end / spelling /
verb x holder released or killed) are replayed with real processes.  The simulator and the
verif hooks are scheduler gates, so the recorded order of events is the real order.
"""
import json, os, shutil, signal, subprocess, time
from concurrent.futures import ThreadPoolExecutor
from . import common as C
from . import session as S
from . import sessprops as SP

SPEC = os.path.join(C.SPECS, "lock")
PAR = {"type": "asa", "nameOK": True, "marker": "present", "ha": "off", "n": 1}


def snapshot(home):
    out = {}
    for d in ("status", "history", "logs", "policies/p1/log"):
        p = os.path.join(home, d)
        for root, _, files in os.walk(p):
            for f in files:
                q = os.path.join(root, f)
                try:
                    out[os.path.relpath(q, home)] = open(q, "rb").read()
                except OSError:
                    pass
    return out


def wait_file(path, proc=None, timeout=20):
    t0 = time.time()
    while time.time() - t0 < timeout:
        if os.path.exists(path):
            return True
        if proc is not None and proc.poll() is not None:
            return os.path.exists(path)
        time.sleep(0.003)
    return False


def start(bins, home, fe, verb, spelling, tag, sim_extra=None, env_extra=None):
    simcfg, _ = S.device_and_target("asa", True)
    sim = SP.sim_for(dict(PAR, fe=fe, verb=verb), simcfg)
    sim.update(sim_extra or {})
    code = os.path.join(home, "policies", "p1", "code", "router")
    # run_session with wait=False; drc by name: cwd = code directory, argument "router"
    log = os.path.join(home, "transcript-%s.ndjson" % tag)
    sc = dict(sim, type="asa", hostname="router", log=log)
    scen = os.path.join(home, "scenario-%s.json" % tag)
    json.dump(sc, open(scen, "w"))
    # (the verif gates of the repository run the garbage collector and pending finalizers before they signal, so
    # a lock that is only kept alive by an unreferenced *os.File is lost deterministically at those phases)
    env = dict(os.environ, HOME=home, TEST_TIME=S.TEST_TIME,
               SIMULATE_ROUTER="%s %s" % (os.path.join(bins, "consim"), scen))
    env.update(env_extra or {})
    cwd = home
    if fe == "drc":
        arg = code
        if spelling == "name":
            cwd, arg = os.path.dirname(code), "router"
        elif spelling == "relative":
            cwd, arg = os.path.join(home, "policies"), "current/code/router"
        elif spelling == "symlink":
            # the code file itself is a symbolic link to a file of another name: still the device `router`
            real = code + "-v1"
            if not os.path.islink(code):
                os.rename(code, real)
                os.symlink(os.path.basename(real), code)
        cmd = [os.path.join(bins, "drc")] + (["-C"] if verb == "compare" else []) + ["-L", os.path.join(home, "logs"), arg]
    else:
        cmd = [os.path.join(bins, "do-approve"), verb, "router"]
    p = subprocess.Popen(cmd, cwd=cwd, env=env, stdin=subprocess.DEVNULL, stdout=subprocess.PIPE,
                         stderr=subprocess.PIPE, text=True, start_new_session=True)
    return p, log


def finish(p, log, home, before=None):
    try:
        so, se = p.communicate(timeout=30)
    except subprocess.TimeoutExpired:
        os.killpg(p.pid, signal.SIGKILL)
        so, se = p.communicate()
        raise C.Broken("process did not finish: " + se[-300:])
    tr = S.read_transcript(log)
    talked = any("i" in x for x in tr)
    wrote = before is not None and snapshot(home) != before
    return {"rc": p.returncode, "refused": "Approve in progress" in se, "talked": talked, "wrote": wrote,
            "stderr": se[-300:]}


def run_schedule(bins, root, tid, s, lines):
    simcfg, spoc = S.device_and_target("asa", True)
    home = S.make_world(root, "asa", spoc, timeout=5)
    gatefile = os.path.join(home, "gate")
    sim_extra, env_extra = {}, {}
    g = s["gate"]
    if g in ("after-lock", "before-status", "before-exit"):
        env_extra["VERIF_GATE"] = "%s:%s" % (g, gatefile)
    else:
        sim_extra = {"gate_line": lines[g], "gate_file": gatefile}
    ev = [{"t": tid, "ev": "Init"}]
    h, hlog = start(bins, home, s["hfe"], s["hverb"], "path", "h", sim_extra, env_extra)
    ev.append({"t": tid, "ev": "Start", "p": 1})
    if not wait_file(gatefile + ".reached", h):
        so, se = h.communicate()
        raise C.Broken("holder never reached gate %s (%s): %s" % (g, s, se[-300:]))
    ev.append({"t": tid, "ev": "Held", "p": 1, "at": g})
    before = snapshot(home)
    res = {}
    for k, (cfe, csp, cverb) in enumerate(s["contenders"]):
        c, clog = start(bins, home, cfe, cverb, csp, "c%d" % k)
        ev.append({"t": tid, "ev": "Start", "p": 2 + k})
        r = finish(c, clog, home, before)
        res[2 + k] = r
        ev.append(dict({"t": tid, "ev": "Exit", "p": 2 + k}, **{x: r[x] for x in ("rc", "refused", "talked", "wrote")}))
    if s["ending"] == "release":
        open(gatefile + ".release", "w").write("x")
        r = finish(h, hlog, home)
        res[1] = r
        ev.append(dict({"t": tid, "ev": "Exit", "p": 1}, **{x: r[x] for x in ("rc", "refused", "talked", "wrote")}))
    else:
        os.kill(h.pid, signal.SIGKILL)
        h.communicate()
        ev.append({"t": tid, "ev": "Kill", "p": 1})
        open(gatefile + ".release", "w").write("x")     # lets the orphaned simulator run into EOF
        time.sleep(0.02)
    # afterwards the device is free: a further run proceeds
    n, nlog = start(bins, home, s["contenders"][0][0], s["contenders"][0][2], s["contenders"][0][1], "n")
    ev.append({"t": tid, "ev": "Start", "p": 9})
    r = finish(n, nlog, home)
    res[9] = r
    ev.append(dict({"t": tid, "ev": "Exit", "p": 9}, **{x: r[x] for x in ("rc", "refused", "talked", "wrote")}))
    shutil.rmtree(home, ignore_errors=True)
    return ev, res


def run(tier, replay_file=None):
    rep = C.Report("C12", tier, "model_checking")
    bins = C.build()
    root = C.sub("c12")
    mc = C.run_tlc(SPEC, "Lock", "LockMC.cfg", workers=4, timeout=600)
    if mc.error or mc.rc != 0:
        raise C.Broken("Lock.tla model check failed: %s" % (mc.error or mc.out[-1500:]))
    rep.add_states(mc)
    # line positions of the holder's dialogue (gates inside the simulator)
    base = SP.one_session(bins, root, dict(PAR, fe="drc", verb="approve", fkind="none"))
    tr = [x for x in base["transcript"] if "i" in x]
    lines = {"login": 0,
             "fetch": [x["i"] for x in tr if x["line"] == "write term"][0],
             "change": [x["i"] for x in tr if x["class"] == "change"][0],
             "save": [x["i"] for x in tr if x["class"] == "save"][0]}
    if replay_file:
        scheds = [json.load(open(replay_file))["schedule"]]
    else:
        scheds = []
        conts = [("drc", "path", "approve"), ("drc", "name", "compare"), ("doapprove", "", "approve"),
                 ("doapprove", "", "compare"), ("drc", "relative", "approve"), ("drc", "symlink", "compare")]
        for hfe in ("drc", "doapprove"):
            for hverb in ("approve", "compare"):
                gates = ["after-lock", "login", "fetch", "before-exit"]
                if hverb == "approve":
                    gates += ["change", "save"]
                if hfe == "doapprove":
                    gates.append("before-status")
                for g in gates:
                    for ending in ("release", "kill"):
                        for i, c in enumerate(conts):
                            if tier == "quick" and (i + len(scheds)) % 2:
                                continue
                            scheds.append({"hfe": hfe, "hverb": hverb, "gate": g, "ending": ending,
                                           "contenders": [c, conts[(i + 2) % len(conts)]]})

    def one(a):
        i, s = a
        return run_schedule(bins, root, i + 1, s, lines)

    with ThreadPoolExecutor(C.NCPU) as ex:
        results = list(ex.map(one, enumerate(scheds)))
    path = os.path.join(root, "c12.ndjson")
    C.write_ndjson(path, [e for evs, _ in results for e in evs])
    res = C.run_tlc(SPEC, "LockTrace", "LockTrace.cfg", env={"TRACE": path}, timeout=900)
    C.tlc_ok(res, "LockTrace")
    rep.add_states(res)
    seen = set()
    for v in res.verr:
        _, tid, step, tag, detail, kf = v[:6]
        if (tid, detail) in seen:
            continue
        seen.add((tid, detail))
        s = scheds[tid - 1]
        if not replay_file:
            ev2, _ = run_schedule(bins, root, 1, s, lines)
            p2 = os.path.join(root, "rerun.ndjson")
            C.write_ndjson(p2, ev2)
            res2 = C.run_tlc(SPEC, "LockTrace", "LockTrace.cfg", env={"TRACE": p2}, timeout=300)
            if not res2.verr:
                raise C.Broken("failure of schedule %s not reproduced on re-run: %s" % (tid, detail))
        rep.known_or_violation("", "%s\n  schedule %s\n  %s" % (detail, json.dumps(s), json.dumps(results[tid - 1][1])),
                               {"property": "C12", "schedule": s})
    rep.cov.update({
        "traces_validated_against_impl": len(scheds), "schedules": len(scheds),
        "processes_started": sum(len(s["contenders"]) + 2 for s in scheds),
        "samples": [scheds[0], scheds[len(scheds) // 2], scheds[-1]],
        "checker_cmd": "tlc Lock.tla (LockMC.cfg, 3 processes); tlc LockTrace.tla on %d recorded schedules" % len(scheds),
    })
    rep.assumptions += [
        "the holder is held at gates inside the simulator (login, config fetch, first change, save) and at the "
        "verif hooks after-lock / before-status / before-exit; phases between them are not separately scheduled",
        "kill = SIGKILL of the holder process",
    ]
    shutil.rmtree(root, ignore_errors=True)
    return rep.finish()
