from . import devprops


def run(tier, replay=None):
    return devprops.run("C14", tier, replay)
