"""C13 - missing-approve never forgets a device that needs approve.

1. TLC model-checks specs/status/Status.tla (transcription of pkg/status and
   missing-approve) against NeverForgets / Omits on all event sequences up to a bound.
2. TLC generates behaviours (all paths of small depth, one path per distinct model
   state of larger depth, random walks); harness/cmd/statusdrv replays each against the
   real status package and the real missing-approve binary built from /repo.
3. TLC validates the recorded traces with StatusTrace.tla; the verdict is taken on the
   observed listing.
"""
import json, os, subprocess, sys, time
from concurrent.futures import ThreadPoolExecutor
from . import common as C

SPEC = os.path.join(C.SPECS, "status")

TIERS = {
    # edges_ev: every transition out of every abstract model state reachable in < edges_ev events
    # esc_ev  : depth used instead when the code is seen to deviate from the transcription (drift)
    "quick":    dict(mc_ev=7, edges_ev=4, esc_ev=5, sim_n=3000, sim_depth=10),
    "thorough": dict(mc_ev=8, edges_ev=6, esc_ev=6, sim_n=40000, sim_depth=14),
}


def gen(cfg, consts, simulate=None, depth=None, timeout=900):
    res = C.run_tlc(SPEC, "StatusGen", cfg, consts=consts, simulate=simulate, depth=depth,
                    tlc_seed=C.seed() if simulate else None, timeout=timeout, heap="6g")
    if res.error and "timeout" in str(res.error):
        raise C.Broken("generator %s timed out" % cfg)
    if res.rc not in (0,) and not simulate:
        raise C.Broken("generator %s failed: %s" % (cfg, res.error or res.out[-2000:]))
    return [json.loads(p[0]) for p in res.prints], res


def replay(bins, behaviours):
    """Run statusdrv over the behaviours in parallel; returns list of trace-line lists (per chunk)."""
    parts = C.chunks(behaviours, C.NCPU)
    work = C.sub("c13")

    def one(i_part):
        i, part = i_part
        inp = "\n".join(json.dumps(b) for b in part) + "\n"
        r = subprocess.run([os.path.join(bins, "statusdrv"), os.path.join(bins, "missing-approve"),
                            os.path.join(work, "drv%d" % i)],
                           input=inp, stdout=subprocess.PIPE, stderr=subprocess.PIPE, text=True)
        if r.returncode != 0:
            raise C.Broken("statusdrv failed: " + r.stderr[-2000:])
        path = os.path.join(work, "trace%d.ndjson" % i)
        open(path, "w").write(r.stdout)
        return path, r.stdout.count("\n")

    with ThreadPoolExecutor(C.NCPU) as ex:
        return list(ex.map(one, enumerate(parts)))


def validate(paths):
    def one(path):
        res = C.run_tlc(SPEC, "StatusTrace", "StatusTrace.cfg", env={"TRACE": path}, timeout=1800)
        return res
    with ThreadPoolExecutor(C.NCPU) as ex:
        return list(ex.map(one, paths))


def to_behaviour(i, hist):
    return {"id": i, "init": {"c": hist[0]["c"], "dev": hist[0]["dev"]}, "evs": hist[1:]}


def run(tier, replay_file=None):
    T = TIERS[tier]
    rep = C.Report("C13", tier, "model_checking")
    bins = C.build()

    if replay_file:
        obj = json.load(open(replay_file))
        behaviours = [obj["behaviour"]]
        mc = None
    else:
        # 1. design-level model checking of the transcription
        mc = C.run_tlc(SPEC, "Status", "StatusMC.cfg", consts={"MaxEv": T["mc_ev"]},
                       workers=C.NCPU, timeout=3000, heap="16g")
        if mc.error or mc.rc != 0:
            # the transcription (after the repairs) violates C13 in the model: this is a statement
            # about the design, the verdict still needs the real code -> reported as note
            rep.notes.append("Status.tla model check did not pass: " + (mc.error or "")[:2000])
            raise C.Broken("StatusMC failed:\n" + (mc.error or mc.out[-3000:]))
        rep.add_states(mc)
        # self-test of the model: the unrepaired transcription must violate NeverForgets
        pre = C.run_tlc(SPEC, "Status", "StatusPre.cfg", consts={"MaxEv": 5}, workers=4, timeout=600)
        if not (pre.error and "NeverForgets" in pre.out):
            raise C.Broken("self-test: unrepaired transcription not rejected by TLC")

        # 2. behaviours
        behaviours = generate(T, T["edges_ev"], rep)

    verdict_pass(rep, bins, behaviours, replay_file, first=True, T=T)
    rep.cov["checker_cmd"] = "tlc Status.tla (StatusMC.cfg MaxEv=%d); tlc StatusTrace.tla on %d traces" % (
        T["mc_ev"], rep.cov.get("traces_validated_against_impl", 0))
    if mc:
        rep.cov["mc_depth"] = mc.depth
    rep.assumptions += [
        "clock strictly increasing (TEST_TIME advances one second per event)",
        "status updates are driven through status.SetApprove/SetCompare with the outcome of the event; "
        "that do-approve derives this outcome from the session is bound by C09",
        "a compare that cannot reach the device counts as a DIFF observation",
    ]
    return rep.finish()


def generate(T, edges_ev, rep):
    import random
    hists, r = gen("StatusGenEdges.cfg", {"MaxEv": edges_ev}, timeout=1800)
    rep.cov["behaviours_edge_coverage"] = len(hists)
    rep.cov["edge_coverage_depth"] = edges_ev
    h, r = gen("StatusGenSim.cfg", {"MaxEv": T["sim_depth"]},
               simulate="num=%d" % max(50, T["sim_n"] // 8), depth=T["sim_depth"] + 2)
    # TLC checks the invariant on every candidate successor, so one random walk yields
    # several behaviours that differ in the last event; keep a seeded sample
    random.Random(C.seed()).shuffle(h)
    h = h[:T["sim_n"]]
    hists += h
    rep.cov["behaviours_random"] = len(h)
    if len(hists) < 100:
        raise C.Broken("generator produced only %d behaviours" % len(hists))
    return dedup([to_behaviour(i + 1, h) for i, h in enumerate(hists)], rep)


def dedup(behaviours, rep):
    """Drop behaviours that are a prefix of another one and observe every shared prefix once."""
    seen = set()
    out = []
    nobs = 0
    behaviours.sort(key=lambda b: -len(b["evs"]))
    for b in behaviours:
        key = (b["init"]["c"], b["init"]["dev"])
        keys = [key]
        for e in b["evs"]:
            key = key + (json.dumps(e, sort_keys=True),)
            keys.append(key)
        if keys[-1] in seen:
            continue
        b["obs"] = [k not in seen for k in keys]
        nobs += sum(b["obs"])
        seen.update(keys)
        out.append(b)
    rep.cov["observations"] = rep.cov.get("observations", 0) + nobs
    return out


def verdict_pass(rep, bins, behaviours, replay_file, first, T):
    byid = {b["id"]: b for b in behaviours}
    traces = replay(bins, behaviours)
    nevents = sum(n for _, n in traces)
    results = validate([p for p, _ in traces])
    drift = {}
    fails = {}
    for res in results:
        C.tlc_ok(res, "StatusTrace")
        for v in res.verr:
            _, tid, step, tag, kf = v[:5]
            if tag == "HARNESS":
                raise C.Broken("harness and specification disagree on the environment: %r" % (v,))
            if tag == "DRIFT":
                drift[kf] = drift.get(kf, 0) + 1
                continue
            fails.setdefault((tid, tag, kf), step)
    # classification + deterministic re-run of every unclassified failure
    for (tid, tag, kf), step in sorted(fails.items()):
        key = kf if kf in rep.kf else ""
        if key:
            rep.known[key] = rep.known.get(key, 0) + 1
            continue
        b = byid[tid]
        nviol = len(rep.violations)
        if nviol >= 25:
            rep.cov["failing_behaviours"] = rep.cov.get("failing_behaviours", 25) + 1
            continue
        if not replay_file and nviol < 3:
            again = replay(bins, [b])
            r2 = validate([again[0][0]])[0]
            C.tlc_ok(r2, "StatusTrace re-run")
            if not any(v[3] == tag for v in r2.verr):
                raise C.Broken("failure of behaviour %s not reproduced on re-run" % tid)
        rep.known_or_violation("", "%s violated by behaviour %s" % (tag, json.dumps(b["evs"])),
                               {"property": "C13", "failed": tag, "behaviour": b})

    rep.cov["traces_validated_against_impl"] = rep.cov.get("traces_validated_against_impl", 0) + len(behaviours)
    rep.cov["events_validated"] = rep.cov.get("events_validated", 0) + nevents
    rep.cov.setdefault("samples", [behaviours[0], behaviours[len(behaviours) // 2], behaviours[-1]])
    for k, n in drift.items():
        rep.cov.setdefault("model_drift", {})
        rep.cov["model_drift"][k] = rep.cov["model_drift"].get(k, 0) + n
    if drift and first and not replay_file:
        # The code no longer follows the transcription, so the model-checking result does not
        # speak about it: deepen the exploration of the real code instead.
        print("DRIFT property=C13: implementation deviates from specs/status/Status.tla (%s); "
              "escalating edge coverage to depth %d" % (drift, T["esc_ev"]))
        rep.notes.append("drift detected: %r; escalated" % drift)
        if T["esc_ev"] > T["edges_ev"]:
            deeper = generate(T, T["esc_ev"], rep)
            verdict_pass(rep, bins, deeper, None, first=False, T=T)
