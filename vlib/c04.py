from . import devprops


def run(tier, replay=None):
    return devprops.run("C04", tier, replay)
