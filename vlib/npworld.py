"""Scratch worlds for the unmodified bin/newpolicy.sh: real git with a local bare repository,
get-netspoc-approve-conf built from /repo, stub netspoc / mail, DEBUG-trap tracer (BASH_ENV)."""
import os, re, shutil, signal, subprocess, time
from . import common as C

NP = os.path.join(C.HARNESS, "newpolicy")


def sh(cmd, cwd, env, check=True):
    r = subprocess.run(cmd, cwd=cwd, env=env, stdout=subprocess.PIPE, stderr=subprocess.STDOUT, text=True)
    if check and r.returncode != 0:
        raise C.Broken("%s failed in %s: %s" % (cmd, cwd, r.stdout[-500:]))
    return r.stdout


class World:
    def __init__(self, root, bins):
        self.dir = root
        self.bins = bins
        self.ncommit = 0
        self.events = []          # abstract history (for the trace)
        os.makedirs(root)
        mybin = os.path.join(root, "my-bin")
        os.makedirs(mybin)
        for f in ("netspoc", "mail"):
            shutil.copy(os.path.join(NP, f), mybin)
        shutil.copy(os.path.join(NP, "trace.bash"), root)
        self.write_config()
        e = self.env()
        for k, v in (("user.name", "System User"), ("user.email", ""), ("init.defaultBranch", "master"),
                     ("pull.rebase", "true"), ("advice.detachedHead", "false")):
            sh(["git", "config", "--global", k, v], root, e)
        tmp = os.path.join(root, "tmp-git")
        os.makedirs(tmp)
        open(os.path.join(tmp, "topology"), "w").write("network:n1 = { ip = 10.1.1.0/24; } # rev 0\n")
        sh(["git", "init", "--quiet"], tmp, e)
        sh(["git", "add", "."], tmp, e)
        sh(["git", "commit", "-q", "-m", "initial"], tmp, e)
        sh(["git", "clone", "--quiet", "--bare", tmp, os.path.join(root, "netspoc.git")], root, e)
        shutil.rmtree(tmp)
        sh(["git", "clone", "--quiet", os.path.join(root, "netspoc.git"), os.path.join(root, "netspoc")], root, e)
        w = os.path.join(root, "netspoc")
        sh(["git", "config", "--local", "user.name", "Test User"], w, e)
        sh(["git", "config", "--local", "user.email", "user@example.com"], w, e)
        os.makedirs(os.path.join(root, "policies"))
        os.makedirs(os.path.join(root, "lock"))
        self.events.append({"ev": "Commit", "good": True, "email": True, "pol": 0})

    def write_config(self):
        open(os.path.join(self.dir, ".netspoc-approve"), "w").write(
            "basedir = %s\nnetspoc_git = file://%s/netspoc.git\nadmin_emails = admin1@example.com\n" % (self.dir, self.dir))

    def env(self, **kw):
        e = dict(os.environ, HOME=self.dir,
                 PATH="%s/my-bin:%s:%s/bin:%s" % (self.dir, self.bins, C.REPO, os.environ["PATH"]))
        e.pop("BASH_ENV", None)
        e.update(kw)
        return e

    def commit(self, good=True, email=True, policy=None):
        """An environment commit to the repository."""
        w = os.path.join(self.dir, "netspoc")
        e = self.env()
        sh(["git", "pull", "--quiet"], w, e)
        self.ncommit += 1
        open(os.path.join(w, "topology"), "w").write(
            "network:n1 = { ip = 10.1.1.0/24; } %s rev %d\n" % ("# good" if good else "BAD_SYNTAX", self.ncommit))
        if policy is not None:
            open(os.path.join(w, "POLICY"), "w").write("# p%d\n" % policy)
        sh(["git", "add", "--all"], w, e)
        cmd = ["git"]
        if not email:
            cmd += ["-c", "user.email="]
        sh(cmd + ["commit", "-q", "-m", "test"], w, e)
        sh(["git", "push", "--quiet"], w, e)
        self.events.append({"ev": "Commit", "good": good, "email": email, "pol": policy or 0})

    def copy(self, dst):
        """Independent copy of the world under another path (paths inside configs are rewritten)."""
        shutil.copytree(self.dir, dst, symlinks=True)
        n = World.__new__(World)
        n.dir, n.bins, n.ncommit, n.events = dst, self.bins, self.ncommit, list(self.events)
        n.write_config()
        for root, dirs, files in os.walk(dst):
            if root.endswith(".git") or os.path.basename(root) == ".git":
                cfg = os.path.join(root, "config")
                if os.path.exists(cfg):
                    s = open(cfg).read()
                    if self.dir in s:
                        open(cfg, "w").write(s.replace(self.dir, dst))
        return n

    # ---- running the unmodified script under the tracer
    def start(self, inst, trace, kill_at=None, gate_at=None, gate=None):
        e = self.env(BASH_ENV=os.path.join(self.dir, "trace.bash"), VP_TRACE=trace,
                     VP_CTR=trace + ".ctr", VP_INST=str(inst), VP_DB=os.path.join(self.dir, "policies"))
        if kill_at:
            e["VP_KILL_AT"] = str(kill_at)
        if gate_at:
            e["VP_GATE_AT"] = str(gate_at)
            e["VP_GATE"] = gate
        return subprocess.Popen(["bash", os.path.join(C.REPO, "bin", "newpolicy.sh")], cwd=self.dir, env=e,
                                stdin=subprocess.DEVNULL, stdout=subprocess.PIPE, stderr=subprocess.STDOUT,
                                text=True, start_new_session=True)

    def run(self, inst, trace, kill_at=None):
        p = self.start(inst, trace, kill_at)
        try:
            out, _ = p.communicate(timeout=60)
        except subprocess.TimeoutExpired:
            os.killpg(p.pid, signal.SIGKILL)
            out, _ = p.communicate()
            raise C.Broken("newpolicy.sh did not finish: " + out[-300:])
        return p.returncode, out

    def state(self):
        db = os.path.join(self.dir, "policies")
        cur = ""
        try:
            cur = os.readlink(os.path.join(db, "current"))
        except OSError:
            pass

        def content(d):
            p = os.path.join(db, d, "code", ".content")
            return open(p).read().strip() if os.path.exists(p) else ""

        e = self.env()
        head = sh(["git", "--git-dir", os.path.join(self.dir, "netspoc.git"), "show", "HEAD:topology"], self.dir, e,
                  check=False).strip()
        # the newest revision of the repository history that compiles (walking back from the head)
        gd = ["git", "--git-dir", os.path.join(self.dir, "netspoc.git")]
        best = ""
        for h in sh(gd + ["log", "--topo-order", "--format=%H", "HEAD"], self.dir, e, check=False).split():
            t = sh(gd + ["show", h + ":topology"], self.dir, e, check=False).strip()
            if t and "BAD" not in t:
                best = t
                break
        return {"cur": cur, "curContent": content(cur) if cur else "", "head": head,
                "headGood": "BAD" not in head, "best": best,
                "dirs": sorted(d for d in os.listdir(db) if re.match(r"p\d+$|next$", d)),
                "failed": os.path.exists(os.path.join(db, "failed"))}


def read_trace(path):
    out = []
    if not os.path.exists(path):
        return out
    for ln in open(path):
        f = ln.rstrip("\n").split("\t")
        if len(f) == 3 and f[2] == "KILLED":
            out.append({"n": int(f[0]), "inst": int(f[1]), "killed": True})
        elif len(f) >= 6:
            out.append({"n": int(f[0]), "inst": int(f[1]), "cur": f[2], "dirs": f[3], "failed": f[4] == "F",
                        "cmd": "\t".join(f[5:])})
    return out
