"""`./check setup`: build everything once and pre-compute the TLC input universes (cache/)."""
from concurrent.futures import ThreadPoolExecutor
from . import common as C, devfam as F, devprops as P


def run():
    C.build()
    todo = set()
    for prop, plan in P.PLAN.items():
        for tier in ("quick", "thorough"):
            for dialect, fam, _ in plan[tier]:
                todo.add((dialect, fam))

    def one(a):
        dialect, fam = a
        cases, total = F.gen_cases(dialect, fam, P.FAM_CONSTS[dialect].get(fam))
        return "%s/%s: %d inputs" % (dialect, fam, total)

    with ThreadPoolExecutor(6) as ex:
        for line in ex.map(one, sorted(todo)):
            print(line)
    return 0
