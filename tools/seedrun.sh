#!/bin/bash
# tools/seedrun.sh <seed-id> <check>...  : run checks (quick) against /repo + the stored seeded change
# (scratch worktree outside /repo and /verif, removed afterwards; /repo itself stays untouched)
ID=$1; shift
export GOFLAGS=-mod=mod GOPROXY=off GOSUMDB=off GOTOOLCHAIN=local
WT=/var/tmp/seedrun-$ID-$$
git -C /repo worktree add -q --detach $WT HEAD || exit 2
git -C $WT apply /verif/seeded/$ID/patch.diff || { git -C /repo worktree remove --force $WT; exit 2; }
export VERIF_REPO=$WT
for c in "$@"; do
  echo "=== seed $ID: check $c quick"
  ( cd /verif && VERIF_NO_EVIDENCE=1 timeout 2400 ./check $c quick 2>&1 | grep -E "^(OK|VIOLATION|BROKEN|KNOWN)" | cut -c1-160 | head -8 )
done
git -C /repo worktree remove --force $WT
