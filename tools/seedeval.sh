#!/bin/bash
# tools/seedeval.sh <worktree> <seed-id> <check>...   : confirm a seeded change and run checks against it
# 1. demo on a clean scratch worktree (must pass)  2. apply to /repo: baseline (must pass), demo (must fail)
# 3. run the given checks (quick)                  4. undo
WT=$1; ID=$2; shift 2
export GOFLAGS=-mod=mod GOPROXY=off GOSUMDB=off GOTOOLCHAIN=local
D=/verif/seeded/$ID
mkdir -p $D
cp $WT/seed/patch.diff $WT/seed/meta.json $D/ 2>/dev/null
cp -r $WT/seed/. $D/demo/ 2>/dev/null || { mkdir -p $D/demo; cp -r $WT/seed/* $D/demo/; }
rm -f $D/demo/patch.diff $D/demo/meta.json
CLEAN=/tmp/wt/clean-$ID
git -C /repo worktree add -q --detach $CLEAN HEAD
# the demo runs from <tree>/seed (some demos build a simulator they keep next to demo.sh)
mkdir -p $CLEAN/seed; cp -r $D/demo/. $CLEAN/seed/
( cd $CLEAN && bash seed/demo.sh $CLEAN >/tmp/tj/demo-clean-$ID.log 2>&1 ); echo "demo on clean tree: exit $?"
git -C $CLEAN apply $D/patch.diff && ( cd $CLEAN && bash seed/demo.sh $CLEAN >/tmp/tj/demo-patched-$ID.log 2>&1 ); echo "demo on patched tree: exit $?"
rm -rf $CLEAN/seed
# the checks run against this patched scratch worktree (VERIF_REPO), /repo itself stays untouched
export VERIF_REPO=$CLEAN
/verif/baseline_off.sh | tail -3
for c in "$@"; do
  echo "=== check $c quick on patched /repo"
  ( cd /verif && VERIF_NO_EVIDENCE=1 timeout 1500 ./check $c quick 2>&1 | grep -E "^(OK|VIOLATION|BROKEN|KNOWN)" | cut -c1-160 | head -6 )
done
git -C /repo worktree remove --force $CLEAN
