#!/usr/bin/env python3
"""Regenerates /verif/MANIFEST.json from the table below (keeps it valid at all times)."""
import json, os
V = os.path.dirname(os.path.dirname(os.path.abspath(__file__)))
props = [json.loads(l) for l in open(os.path.join(V, "properties.jsonl"))]

DEV_NOTE = ("device semantics = specs/dev/*.tla; renderer/cmdparse of the harness trusted for the tool's closed output "
            "dialect (unknown command = exit 2); bounded universes (families listed in the evidence); quick tier samples them")
DEV_TECH = "TLC-enumerated input universes + TLA+ trace validation of real planner scripts on the device spec"

CHECKS = {
 "C01": ("model_checking", "TLC enumerates (device, target) pairs of the ASA universes (line edits, object-groups renamed/shared/duplicated/split, shared ACLs, routes, unmanaged overlay, long ACLs as a seeded TLC random sample) and of the ASA VPN object graph AsaV.tla (users, group-policies, tunnel-groups, certificate maps, pools, filter ACLs; crypto maps with entries matched by peer, crypto ACLs and transform-sets); the real planner's script is executed on the ASA device specification by TLC, which checks Equivalent(dev, target) at the end, that the planner's second plan on the rendered final state is empty and that an empty script only occurs for an equivalent device.", DEV_NOTE, DEV_TECH, "§7 C01"),
 "C02": ("model_checking", "Same construction on the IOS device specification (sequence numbers, resequence, numbered inserts/deletes, interface bindings, VRFs, crypto map entries matched by peer with in/out filter ACLs): final state block-canonically equivalent, second plan empty.", DEV_NOTE, DEV_TECH, "§7 C02"),
 "C07": ("model_checking", "Frame invariant of AsaTrace/IosTrace evaluated after every command of every real script on universes crossed with unmanaged overlays (unbound hand-named ACLs, ACLs of unknown interfaces, unmanaged VRFs, foreign groups shared with managed ACLs, routes of unspecified families, a shut-down unknown interface, a second interface in an unmanaged VRF); PAN-OS vsys and NSX objects outside the target (also ids that only contain the Netspoc prefix) through the trace specs of those dialects and real NSX sessions.", DEV_NOTE, DEV_TECH, "§7 C07"),
 "C08": ("model_checking", "Every command of every real script is executed by the device specification, whose guards encode 'the device accepts this command now' (referenced objects exist, nothing referenced is deleted, no duplicate ACL line, line/sequence numbers address the intended position, sub-commands in the mode of their parent).", DEV_NOTE, DEV_TECH, "§7 C08"),
 "C10": ("model_checking", "For sampled pairs and EVERY cut position k of the emitted script (also between the halves of a joined entry and inside sub-modes) the device state after k commands is rendered, the real planner is run again from it, the combined trace is validated: no guard failure, Equivalent at the end, third plan empty.", DEV_NOTE, DEV_TECH, "§7 C10"),
 "C13": ("model_checking", "TLC model-checks the transcription of pkg/status and missing-approve (Status.tla) against NeverForgets/Omits on all event sequences up to the bound; TLC-generated behaviours (every transition out of every abstract model state up to a depth, plus random walks) are replayed against the real status package and missing-approve binary and the recorded traces are validated by StatusTrace.tla, the verdict being taken on the observed listing.", "strictly increasing clock; status updates driven through status.SetApprove/SetCompare; bounded depth", "TLA+ model checking (TLC) + trace validation of replayed behaviours", "§7 C13"),
 "C16": ("exploration", "TLC-enumerated inputs whose generator predicate HasTie holds (several identical object-groups on the device, equally good matches) and ordinary inputs are planned repeatedly in separate processes (12 resp. 4 runs); DetTrace.tla requires every run to equal the first (exit status, stdout, stderr). Determinism over all map orders is sampled, not enumerated.", DEV_NOTE, "TLC-enumerated tie-bearing inputs + repeated real planner runs validated by DetTrace.tla", "§7 C16"),
 "C14": ("model_checking", "StepSafe (every packet on which old and new ACL agree keeps its verdict; every destination routed before and after stays routed) is evaluated by TLC after every complete entry of every real ASA/IOS script on the group-free universes; failing steps are classified by model-checked shapes (H2, H3, K2, IosSharedAcl) and anything outside them is a violation.", DEV_NOTE, DEV_TECH, "§7 C14"),
}

SESS_NOTE = ("device side = harness simulators consim/httpsim through the repository's own SIMULATE_ROUTER seam (mode-aware, classify every "
             "received line/request, never echo a password prompt); one fault per session; Linux scp not observable under simulation")
SESS_TECH = "TLC model check of Session.tla + TLA+ trace validation of simulator transcripts of real sessions (every fault position x kind)"
CHECKS.update({
 "C06": ("model_checking", "Session.tla (intended executor protocol) is model-checked for all scenarios; every fault-free approve scenario TLC enumerates (5 types x drc/do-approve x hostname x marker present/absent/unconfigured x HA x pending changes) is replayed as a real session against the stateful simulator of that type and the transcript is validated by SessionTrace.tla: no change/save command reaches a wrong, unmanaged or passive device, non-zero exit with diagnostic; a good device is approved normally.", SESS_NOTE, SESS_TECH, "§7 C06"),
 "C09": ("model_checking", "For every scenario a fault of every kind (reject, warning + reject, unexpected output, stall, close; HTTP status 400/403/404/500/503, malformed, dead connection, no-success, failed commit job, missing [OK]) is injected at EVERY line / request position of the real dialogue; SessionTrace.tla checks on the recorded transcript that nothing but clean-up follows the fault, nothing is saved, exit is non-zero, do-approve records FAILED/DIFF and END: FAILED, and OK only with everything accepted and the save confirmed.", SESS_NOTE, SESS_TECH, "§7 C09"),
 "C11": ("model_checking", "Every compare scenario (drc -C, do-approve compare; all types; with differences; missing marker; wrong name) and every fault position of a compare session is replayed; the simulator's transcript must contain no change and no save/commit (ASA terminal width classified as session setting) and the device-side change counter must stay 0; also other spellings of the verb and drc -C without a log directory.", SESS_NOTE, SESS_TECH, "§7 C11"),
 "C17": ("fault_enumeration", "The C06/C09 session space (success and every fault kind/position of login and later requests, all five types) is replayed with secrets that have distinct URL-encoded forms (regexp operators inside the password), also behind the ssh host-key question in its old and its OpenSSH-8 wording; every file below basedir/log directories plus stdout/stderr is byte-scanned for the plain and encoded forms of password, API key, session token and cookie.", SESS_NOTE, "model-enumerated fault scenarios (Session.tla) replayed on real sessions + byte scan for secrets", "§7 C17"),
})

CHECKS.update({
 "C15": ("model_checking", "IosReload.tla (arm, transmissions of one or two lines, banners per line, re-arm, cancel, write memory) is model-checked; every change line of a real IOS approve x banner form (bare at every byte offset of the echo, banner + fresh prompt before / after the echo) x kind (2:00, 1:00), and pairs of banners, are replayed against the simulator; IosReloadTrace.tla checks on the transcript: every change line under an armed reload, write memory only after cancel, nothing pending after success, one-minute warning answered by `do reload in N` before the next transmission, same commands delivered and same exit status as the banner-free run.", SESS_NOTE, SESS_TECH, "§7 C15"),
})

CHECKS.update({
 "C12": ("model_checking", "Lock.tla (3 processes, drc / do-approve step order, kill anywhere) is model-checked for NoOverlap, LoserWritesNothing, HolderOnly, LockNotStuck; schedule classes (holder front-end x verb x phase at which contenders start: after the lock, login, config fetch, first change, save, before the status write, before exit x contender front-end / spelling of the device / verb x holder released or SIGKILLed) are replayed with real processes gated by the simulator and the verif hooks; LockTrace.tla checks that every contender fails at once with 'Approve in progress', never talks to the device, leaves status/history/logs byte-identical, and that a later run proceeds.", "gates only at the listed phases; one device type (ASA) for the console dialogue; SIGKILL as kill", "TLC model check of Lock.tla + trace validation of gated real-process schedules", "§7 C12"),
})

CHECKS.update({
 "C19": ("model_checking", "NewPolicy.tla (one label per visible simple command of newpolicy.sh, 2 instances, good/bad commits with and without author e-mail, kill at every label) is model-checked for CurrentValid, OneAtATime, NumbersGrow, OnlyCompiled and Recovered; the UNMODIFIED bin/newpolicy.sh is run in scratch worlds (real git, stub netspoc/mail) under a BASH_ENV DEBUG-trap tracer that snapshots the policy database before EVERY simple command and kills the script's process group at the k-th command for every k (plus double kills and two simultaneous instances), followed by an undisturbed run; NewPolicyTrace.tla evaluates the properties on the observed snapshots.", "external commands are atomic (kill between simple commands); stub compiler; 11 history classes incl. a commit pushed during the compile; the final check compares current with the newest compiling revision of the history; a failure must show twice within four runs of its job", "TLC model check of NewPolicy.tla + trace validation of DEBUG-trap traces of the unmodified script (kill at every command)", "§7 C19"),
})

CHECKS.update({
 "C05": ("model_checking", "TLC enumerates pairs of Linux states (route sets with several routes per destination, default route switches; rulesets of table filter / mangle with policies, user chains; a spelling universe of 30 abstract rules in which neighbouring rules differ in one feature only). Every abstract ruleset is rendered in TWO spellings (Netspoc spelling for the target, iptables-save / `ip route show` spelling for the device); the real planner's `ip route add/del` commands and the emitted iptables-restore file are executed by Linux.tla; LinuxTrace.tla checks: final routes and ruleset equal the target, a difference of rulesets is reported iff the abstract rulesets differ, the kernel-spelled print of the final state compares as unchanged.", DEV_NOTE + "; the spelling tables of vlib/linux.py are an explicit, reviewed part of the trusted base", DEV_TECH, "§7 C05"),
 "C18": ("model_checking", "Merge.tla defines Admissible(result, v4, v6, rawPre, rawApp) (completeness, per-part order, raw before Netspoc, APPEND between the last permitting Netspoc entry and the trailing denies). TLC enumerates all combinations of the parts (incl. no permit line, empty parts) for ASA ACLs (v4+v6+raw), IOS ACLs, Linux chains, PAN-OS rulebases (v4+v6+raw with <APPEND/>) and NSX policies (v4+raw, union by policy id); the script of the real planner on the EMPTY device is executed by the device specification and the resulting ACL / chain is checked with Admissible; 9 unmergeable raw files (unknown command, unbound / doubly bound object, name clash, unused group) must end in an error or a warning naming the object.", DEV_NOTE, DEV_TECH, "§7 C18"),
})

CHECKS.update({
 "C03": ("model_checking", "Same construction as C01 on the PAN-OS device specification (candidate configuration of the targeted vsys; set = create/merge and ADD on member lists, edit = replace with existing target, delete entry or single member, move before): universes of rule lists with insert/delete/reorder, address-groups renamed/shared/split and name clashes, objects with equal names and different values, service-groups, unknown attribute, rules differing in one attribute (zones, log settings, rule-type, application), a vsys holding g0 and g0-1, two vsys, a second untargeted vsys; IPv6/raw merges with an explicit effective target (one vsys with rules, two vsys) planned in merge mode; final rulebase equal in order with objects expanded, second plan empty.", DEV_NOTE, DEV_TECH, "§7 C03"),
 "C04": ("model_checking", "Same construction on the NSX device specification (PUT/PATCH/POST add|remove/DELETE on services, groups, address expressions, policies, rules): universes with rules sharing sequence numbers, groups renamed/shared/split over four addresses, incremental vs full replacement, services changed in place, left-over Netspoc groups/services, policy on one side only, twin rules, rules differing in one attribute, in-place edits of a group between any two address sets, ICMP / IP-protocol services; per policy the multiset of expanded rules equals the target's, no left-over Netspoc service/group, second plan empty.", DEV_NOTE, DEV_TECH, "§7 C04"),
})

NA_REASONS = {
 "C20": "quantifies over mutated bytes fed to parsers with oracle 'process did not panic': no state machine to specify; needs mutation fuzzing, a different technique (DESIGN.md §8)",
}

checks = []
for pid in sorted(CHECKS):
    cat, text, note, tech, ref = CHECKS[pid]
    checks.append({
        "property_id": pid, "quick_cmd": "./check %s quick" % pid, "thorough_cmd": "./check %s thorough" % pid,
        "evidence_file": "/verif/evidence/%s.json" % pid, "replay_cmd_template": "./check %s quick --replay {path}" % pid,
        "engine": "check", "level_claimed": {"category": cat, "text": text, "design_ref": "DESIGN.md " + ref},
        "level_note": note, "technique": tech})
na = [{"property_id": p["id"], "reason": NA_REASONS.get(p["id"], "check not built yet (work in progress)")}
      for p in props if p["id"] not in CHECKS]
m = {
 "version": 1,
 "setup_cmd": "./check setup",
 "hooks": {"guard": "verif", "enable": "go build -tags verif (pkg/verifhook.Gate: scheduler gates after-lock / before-status / before-exit, used by C12; no-op without the tag)",
           "baseline_off_cmd": "/verif/baseline_off.sh", "source_commits": ["ae4ef1a", "ff47abf"], "add_only": True},
 "engines": [{"name": "check", "path": "/verif/check", "serves_properties": sorted(CHECKS),
              "kind_free_text": "Python driver: TLC on specs/ + Go/Python harness against binaries built from /repo's working tree"}],
 "checks": checks, "not_applicable": na,
 "notes": "fix: commits in /repo and known findings are listed in KNOWN_FINDINGS.txt; see DESIGN.md",
}
json.dump(m, open(os.path.join(V, "MANIFEST.json"), "w"), indent=1)
print("claimed:", sorted(CHECKS), "not claimed:", [x["property_id"] for x in na])
