// consim is a stateful, mode-aware console device simulator (ASA, IOS, Linux) used through the
// repository's own seam SIMULATE_ROUTER="consim <scenario.json>".
//
// It records every line it receives (the transcript is the trace, not the tool's own logs),
// classifies it by the device side's grammar, and can inject one fault, reload banners and a
// scheduler gate.  It never echoes input given at a password prompt.
package main

import (
	"bufio"
	"encoding/json"
	"fmt"
	"os"
	"os/signal"
	"strings"
	"syscall"
	"time"
)

type banner struct {
	Text   string `json:"text"`   // if set: the first received line with this text is garbled (Line ignored)
	used   bool
	Line   int    `json:"line"`   // index of the received line whose echo is garbled
	Form   string `json:"form"`   // bare | prompt_before | prompt_after
	Offset int    `json:"offset"` // byte offset inside the echo (bare only)
	Kind   string `json:"kind"`   // 2:00 | 1:00 | aborted
}

type scenario struct {
	Type       string            `json:"type"` // asa | ios | linux
	Hostname   string            `json:"hostname"`
	Banner     string            `json:"banner"` // login banner / content of /etc/issue
	Config     string            `json:"config"` // write term / sh run
	Routes     string            `json:"routes"` // linux: ip route show
	IPTables   string            `json:"iptables"`
	AskYes     string            `json:"askyes"` // "" | "old" | "new": host-key question of ssh, old and new (OpenSSH 8) wording
	NeedEnable bool              `json:"needenable"`
	EnablePass bool              `json:"enablepass"`
	FaultLine  int               `json:"fault_line"` // -1: none
	FaultKind  string            `json:"fault_kind"` // reject | garbage | stall | close | nook
	Banners    []banner          `json:"banners"`
	GateLine   int               `json:"gate_line"` // -1: none; blocks before answering this line
	GateFile   string            `json:"gate_file"`
	Log        string            `json:"log"`
	SaveAsk    bool              `json:"saveask"` // IOS: "System configuration has been modified. Save?"
	Extra      map[string]string `json:"extra"`   // command -> output overrides
}

type rec struct {
	I      int    `json:"i"`
	Line   string `json:"line"`
	Class  string `json:"class"`
	Mode   string `json:"mode"`
	Fault  string `json:"fault"`
	Secret bool   `json:"secret"`
}

var (
	sc     scenario
	out    = bufio.NewWriter(os.Stdout)
	in     = bufio.NewReader(os.Stdin)
	logf   *os.File
	nline  = 0
	mode   = "login"
	prompt string
	// device counters
	changes       = 0
	saved         = false
	reloadPending = false
	faulted       = false
)

// Output is collected and written in one piece before the simulator waits for input again,
// so that everything a device prints in reaction to one line arrives together.
func send(s string) {
	out.WriteString(strings.ReplaceAll(s, "\n", "\r\n"))
}

func emit(v any) {
	b, _ := json.Marshal(v)
	logf.Write(append(b, '\n'))
}

func finish() {
	out.Flush()
	emit(map[string]any{"end": true, "changes": changes, "saved": saved, "reload_pending": reloadPending,
		"lines": nline})
	logf.Close()
	os.Exit(0)
}

// read one input line; returns its index
func readLine() (string, int) {
	out.Flush()
	s, err := in.ReadString('\n')
	if err != nil && s == "" {
		finish()
	}
	s = strings.TrimRight(s, "\r\n")
	i := nline
	nline++
	return s, i
}

func bannerText(kind string) string {
	msg := "SHUTDOWN in 0:02:00"
	switch kind {
	case "1:00":
		msg = "SHUTDOWN in 0:01:00"
	case "aborted":
		msg = "SHUTDOWN ABORTED"
	}
	return "\n\n\n\a***\n*** --- " + msg + " ---\n***\n"
}

func gate(i int) {
	if sc.GateLine == i && sc.GateFile != "" {
		out.Flush()
		os.WriteFile(sc.GateFile+".reached", []byte("x"), 0644)
		for {
			if _, err := os.Stat(sc.GateFile + ".release"); err == nil {
				break
			}
			time.Sleep(5 * time.Millisecond)
		}
	}
}

// echo of a command line, possibly garbled by a reload banner
func echo(i int, line string) {
	for k := range sc.Banners {
		b := &sc.Banners[k]
		if b.Text != "" {
			if b.Text != line || b.used {
				continue
			}
			b.used = true
		} else if b.Line != i {
			continue
		}
		bt := bannerText(b.Kind)
		switch b.Form {
		case "prompt_before":
			send(bt + "\n" + prompt + line + "\n")
		case "prompt_after":
			send(line + bt + "\n" + prompt + "\n")
		default:
			off := b.Offset
			if off > len(line) {
				off = len(line)
			}
			send(line[:off] + bt + line[off:] + "\n")
		}
		return
	}
	send(line + "\n")
}

func expectedWarning(cmd string) string {
	c := strings.TrimPrefix(cmd, "no ")
	switch {
	case sc.Type == "asa" && strings.HasPrefix(c, "access-list"):
		return "WARNING: Same object-group is used more than once in one config line. This config is redundant.\n"
	case sc.Type == "asa" && strings.HasPrefix(c, "crypto map"):
		return "WARNING: The crypto map entry is incomplete!\n"
	case sc.Type == "asa" && strings.HasPrefix(c, "tunnel-group"):
		return "WARNING: L2L tunnel-groups that have names which are not an IP\n"
	}
	return "INFO: command is being processed\n"
}

func rejectText() string {
	switch sc.Type {
	case "asa":
		return "ERROR: % Invalid input detected at '^' marker.\n"
	case "ios":
		return "% Invalid input detected at '^' marker.\n"
	}
	return "bash: command failed\n"
}

// fault handling for line i; returns true if the line was consumed by the fault
func fault(i int, line string, r *rec, secretInput bool) bool {
	if sc.FaultLine != i || sc.FaultKind == "nook" {
		return false
	}
	faulted = true
	r.Fault = sc.FaultKind
	switch sc.FaultKind {
	case "close":
		emit(r)
		finish()
	case "stall":
		emit(r)
		if !secretInput {
			send(line + "\n")
		}
		// no prompt any more; wait until the tool gives up
		out.Flush()
		for {
			if _, err := in.ReadString('\n'); err != nil {
				finish()
			}
		}
	case "reject":
		emit(r)
		if secretInput {
			send("\nPermission denied, please try again.\nPassword: ")
		} else {
			echo(i, line)
			if line == "enable" {
				// what a router without enable secret answers (the word `password` in a refusal
				// that is NOT a password prompt)
				send("% No password set\n" + prompt)
			} else {
				send(rejectText() + prompt)
			}
		}
		return true
	case "warnreject":
		// the device prints a warning the tool expects for this kind of command (or an INFO line)
		// and THEN refuses the command
		emit(r)
		echo(i, line)
		send(expectedWarning(line) + rejectText() + prompt)
		return true
	case "garbage":
		emit(r)
		if !secretInput {
			echo(i, line)
		}
		send("%SYS-3-UNEXPECTED: unexpected output line\n" + prompt)
		return true
	}
	return false
}

func main() {
	data, err := os.ReadFile(os.Args[1])
	if err != nil {
		fmt.Fprintln(os.Stderr, err)
		os.Exit(3)
	}
	// the tool closes the pty when it exits: survive the hang-up and write the end record
	signal.Ignore(syscall.SIGHUP, syscall.SIGPIPE)
	sc.FaultLine, sc.GateLine = -1, -1
	if err := json.Unmarshal(data, &sc); err != nil {
		fmt.Fprintln(os.Stderr, err)
		os.Exit(3)
	}
	logf, err = os.OpenFile(sc.Log, os.O_CREATE|os.O_WRONLY|os.O_APPEND, 0644)
	if err != nil {
		fmt.Fprintln(os.Stderr, err)
		os.Exit(3)
	}
	emit(map[string]any{"start": true, "type": sc.Type})
	prompt = sc.Hostname + "#"
	if sc.Type == "linux" {
		linux()
	} else {
		cisco()
	}
	finish()
}

func askYesText() string {
	if sc.AskYes == "new" {
		return "ED25519 key fingerprint is SHA256:abcdefghijklmnopqrstuvwxyz0123456789ABCDEFG.\n" +
			"Are you sure you want to continue connecting (yes/no/[fingerprint])? "
	}
	return "Are you sure you want to continue connecting (yes/no)? "
}

// ---------------------------------------------------------------- ASA / IOS

func cisco() {
	if sc.AskYes != "" {
		send("The authenticity of host 'router (10.1.1.1)' can't be established.\n" + askYesText())
		line, i := readLine()
		r := &rec{I: i, Line: line, Class: "login", Mode: mode}
		gate(i)
		if !fault(i, line, r, false) {
			emit(r)
			send(line + "\n")
		}
	}
	if sc.Banner != "" {
		send("***********************\n** " + sc.Banner + " **\n***********************\n")
	}
	send("netspoc@10.1.2.3's password: ")
	_, i := readLine()
	r := &rec{I: i, Line: "<password>", Class: "login", Mode: mode, Secret: true}
	gate(i)
	if fault(i, "", r, true) {
		// rejected / garbled password: the tool sees another password prompt or junk
		for {
			_, j := readLine()
			emit(&rec{I: j, Line: "<password>", Class: "login", Mode: mode, Secret: true})
			send("\nPermission denied, please try again.\nPassword: ")
		}
	}
	emit(r)
	if sc.NeedEnable {
		send("\nType help or '?' for a list of available commands.\n" + sc.Hostname + ">")
		prompt = sc.Hostname + ">"
		line, i := readLine()
		r := &rec{I: i, Line: line, Class: "login", Mode: mode}
		gate(i)
		for fault(i, line, r, false) || line != "enable" {
			// still in user mode: whatever is typed here is echoed and refused
			if r.Fault == "" {
				emit(r)
				send(line + "\n" + rejectText() + prompt)
			}
			line, i = readLine()
			r = &rec{I: i, Line: line, Class: "login", Mode: mode}
		}
		prompt = sc.Hostname + "#"
		{
			emit(r)
			send(line + "\n")
			if sc.EnablePass {
				send("Password: ")
				_, i := readLine()
				r := &rec{I: i, Line: "<password>", Class: "login", Mode: mode, Secret: true}
				gate(i)
				if !fault(i, "", r, true) {
					emit(r)
					send("\n" + prompt)
				}
			} else {
				send(prompt)
			}
		}
	} else {
		send("\n" + prompt)
	}
	mode = "exec"
	for {
		line, i := readLine()
		ciscoLine(line, i)
	}
}

func execOnly(cmd string) bool {
	for _, p := range []string{"sh ", "show ", "write ", "term ", "terminal pager", "reload", "configure terminal", "exit"} {
		if strings.HasPrefix(cmd, p) {
			return true
		}
	}
	return cmd == ""
}

var iosPrepare = map[string]bool{"no logging console": true, "line vty 0 15": true,
	"logging synchronous level all": true, "ip subnet-zero": true, "ip classless": true}

func ciscoLine(line string, i int) {
	r := &rec{I: i, Line: line, Mode: mode}
	cmd := line
	do := false
	if mode == "config" && strings.HasPrefix(cmd, "do ") {
		cmd = cmd[3:]
		do = true
	}
	// classification by the device side's own grammar
	switch {
	case mode == "exec" || do:
		switch {
		case cmd == "configure terminal":
			r.Class = "confmode"
		case cmd == "write memory":
			r.Class = "save"
		case strings.HasPrefix(cmd, "reload"):
			r.Class = "guard"
		case cmd == "exit":
			r.Class = "exit"
		case cmd == "":
			r.Class = "empty"
		default:
			r.Class = "read"
		}
	case mode == "config":
		switch {
		case cmd == "end":
			r.Class = "confmode"
		case sc.Type == "asa" && strings.HasPrefix(cmd, "terminal width"):
			r.Class = "sessionSetting"
		case execOnly(cmd):
			// an exec command typed in configuration mode (the device refused to leave it): rejected
			r.Class = "misplaced"
		default:
			r.Class = "change"
		}
	}
	gate(i)
	if fault(i, line, r, false) {
		return
	}
	nook := sc.FaultLine == i && sc.FaultKind == "nook" && cmd == "write memory"
	if nook {
		r.Fault = "nook"
		faulted = true
	}
	emit(r)
	if r.Class == "exit" {
		echo(i, line)
		finish()
	}
	echo(i, line)
	if o, ok := sc.Extra[cmd]; ok {
		send(o)
		send(prompt)
		return
	}
	if mode == "exec" || do {
		switch {
		case cmd == "configure terminal":
			mode = "config"
			if sc.Type == "ios" {
				send("Enter configuration commands, one per line.  End with CNTL/Z.\n")
			}
		case cmd == "write memory":
			if nook {
				send("Building configuration...\n%Error writing nvram:/startup-config (I/O error)\n")
			} else {
				saved = true
				send("Building configuration...\n[OK]\n")
			}
		case strings.HasPrefix(cmd, "reload in"):
			if sc.SaveAsk {
				send("\nSystem configuration has been modified. Save? [yes/no]: ")
				l2, j := readLine()
				r2 := &rec{I: j, Line: l2, Class: "dialog", Mode: mode}
				gate(j)
				if fault(j, l2, r2, false) {
					return
				}
				emit(r2)
				send(l2 + "\n")
			}
			send("Reload reason: Reload Command\nProceed with reload? [confirm]")
			l3, k := readLine()
			r3 := &rec{I: k, Line: l3, Class: "dialog", Mode: mode}
			gate(k)
			if fault(k, l3, r3, false) {
				return
			}
			emit(r3)
			send(l3 + "\n")
			reloadPending = true
		case cmd == "reload cancel":
			reloadPending = false
			send("\n\n***\n*** --- SHUTDOWN ABORTED ---\n***\n")
		case cmd == "sh pager" && sc.Type == "asa":
			send("pager lines 24\n")
		case cmd == "sh term" && sc.Type == "asa":
			send("\nWidth = 80, no monitor\nterminal interactive\n")
		case cmd == "sh ver":
			send("Cisco Software Version 9.9(9)\n")
		case cmd == "show hostname":
			send(sc.Hostname + "\n")
		case cmd == "write term" || cmd == "sh run":
			send(sc.Config)
			if !strings.HasSuffix(sc.Config, "\n") && sc.Config != "" {
				send("\n")
			}
		case cmd == "" || cmd == "terminal pager 0" || strings.HasPrefix(cmd, "term "):
		default:
			send(rejectText())
		}
	} else {
		// configuration mode
		switch {
		case cmd == "end":
			mode = "exec"
		case r.Class == "misplaced":
			send(rejectText())
		case r.Class == "change":
			changes++
		}
	}
	send(prompt)
}

// ---------------------------------------------------------------- Linux

func linux() {
	if sc.AskYes != "" {
		send("The authenticity of host 'router (10.1.1.1)' can't be established.\n" + askYesText())
		line, i := readLine()
		r := &rec{I: i, Line: line, Class: "login", Mode: mode}
		gate(i)
		if !fault(i, line, r, false) {
			emit(r)
			send(line + "\n")
		}
	}
	send("root@" + sc.Hostname + "'s password: ")
	_, i := readLine()
	r := &rec{I: i, Line: "<password>", Class: "login", Mode: mode, Secret: true}
	gate(i)
	if fault(i, "", r, true) {
		for {
			_, j := readLine()
			emit(&rec{I: j, Line: "<password>", Class: "login", Mode: mode, Secret: true})
			send("\nPermission denied, please try again.\nPassword: ")
		}
	}
	emit(r)
	prompt = "root@linux-router:~#"
	send("\nLast login: Mon Jan  1 00:00:00 2024\n" + prompt)
	mode = "exec"
	status := "0"
	for {
		line, i := readLine()
		r := &rec{I: i, Line: line, Mode: mode}
		switch {
		case strings.HasPrefix(line, "ip route add") || strings.HasPrefix(line, "ip route del") ||
			strings.HasPrefix(line, "chmod ") || strings.HasPrefix(line, "mv ") ||
			strings.HasPrefix(line, "/etc/network/"):
			r.Class = "change"
		case line == "exit":
			r.Class = "exit"
		default:
			r.Class = "read"
		}
		gate(i)
		if sc.FaultLine == i && sc.FaultKind == "reject" && r.Class == "change" {
			// a failing shell command: error text and non-zero exit status
			faulted = true
			r.Fault = "reject"
			emit(r)
			echo(i, line)
			send("RTNETLINK answers: Invalid argument\n" + prompt)
			status = "2"
			continue
		}
		if fault(i, line, r, false) {
			continue
		}
		emit(r)
		echo(i, line)
		if r.Class == "exit" {
			finish()
		}
		if o, ok := sc.Extra[line]; ok {
			send(o)
			send(prompt)
			continue
		}
		switch {
		case strings.HasPrefix(line, "PS1="):
			prompt = strings.TrimPrefix(line, "PS1=")
		case line == "echo $?":
			send(status + "\n")
		case line == "uname -r":
			send("5.10.0-custom\n")
		case line == "uname -m":
			send("x86_64\n")
		case line == "hostname -s":
			send(sc.Hostname + "\n")
		case strings.HasPrefix(line, "grep "):
			if sc.Banner != "" {
				send("--- " + sc.Banner + " ---\n")
			}
		case line == "which iptables-restore":
			send("/sbin/iptables-restore\n")
		case line == "ip route show":
			send(sc.Routes)
		case line == "iptables-save":
			send(sc.IPTables)
		case r.Class == "change":
			changes++
			status = "0"
		}
		send(prompt)
	}
}
