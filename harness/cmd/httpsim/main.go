// httpsim is a stateful HTTPS device simulator for PAN-OS (XML API) and NSX-T (REST), used
// through SIMULATE_ROUTER=<url>.  It records every request (classified by the device side's own
// grammar), hands out the API key / session token, keeps PAN-OS candidate and active
// configuration apart at the granularity the session properties need (number of uncommitted
// changes), and can inject one fault at the k-th request.
//
// usage: httpsim <scenario.json>     prints the base URL on stdout, serves until stdin closes
package main

import (
	"bufio"
	"crypto/ecdsa"
	"crypto/elliptic"
	"crypto/rand"
	"crypto/tls"
	"crypto/x509"
	"crypto/x509/pkix"
	"encoding/json"
	"fmt"
	"io"
	"math/big"
	"net"
	"net/http"
	"os"
	"strconv"
	"strings"
	"sync"
	"time"
)

type scenario struct {
	Type      string `json:"type"` // panos | nsx
	Hostname  string `json:"hostname"`
	Marker    bool   `json:"marker"` // vsys display-name contains "netspoc"
	HA        string `json:"ha"`     // off | active | passive
	Config    string `json:"config"` // panos: <vsys> inner XML ; nsx: JSON {"policies":[..],"services":[..],"groups":[..]}
	Key       string `json:"key"`    // API key / session token handed out
	FaultReq  int    `json:"fault_req"`
	FaultKind string `json:"fault_kind"` // status | malformed | eof | nosuccess | jobfail | stall
	Marker2   *bool  `json:"marker2"`    // marker in the display-name of vsys2 (default: as vsys1)
	JobPend   int    `json:"job_pend"`   // the first job_pend polls of the commit job answer PEND
	GateReq   int    `json:"gate_req"`
	GateFile  string `json:"gate_file"`
	Log       string `json:"log"`
}

type rec struct {
	I      int    `json:"i"`
	Line   string `json:"line"`
	Class  string `json:"class"`
	Mode   string `json:"mode"`
	Fault  string `json:"fault"`
	Secret bool   `json:"secret"`
	HasKey bool   `json:"haskey"` // request carried the API key / token
}

var (
	sc       scenario
	mu       sync.Mutex
	logf     *os.File
	nreq     = 0
	changes  = 0
	saved    = false
	uncommit = 0
	server   *http.Server
)

func emit(v any) {
	b, _ := json.Marshal(v)
	logf.Write(append(b, '\n'))
}

func selfSigned() tls.Certificate {
	key, _ := ecdsa.GenerateKey(elliptic.P256(), rand.Reader)
	tmpl := &x509.Certificate{SerialNumber: big.NewInt(1), Subject: pkix.Name{CommonName: "sim"},
		NotBefore: time.Now().Add(-time.Hour), NotAfter: time.Now().Add(24 * time.Hour),
		IPAddresses: []net.IP{net.ParseIP("127.0.0.1")}, KeyUsage: x509.KeyUsageDigitalSignature,
		ExtKeyUsage: []x509.ExtKeyUsage{x509.ExtKeyUsageServerAuth}}
	der, _ := x509.CreateCertificate(rand.Reader, tmpl, tmpl, &key.PublicKey, key)
	return tls.Certificate{Certificate: [][]byte{der}, PrivateKey: key}
}

// returns true if the fault consumed the request
func fault(i int, w http.ResponseWriter, r *rec) bool {
	if sc.GateReq == i && sc.GateFile != "" {
		os.WriteFile(sc.GateFile+".reached", []byte("x"), 0644)
		for {
			if _, err := os.Stat(sc.GateFile + ".release"); err == nil {
				break
			}
			time.Sleep(5 * time.Millisecond)
		}
	}
	if sc.FaultKind == "eof" && sc.FaultReq >= 0 && i > sc.FaultReq {
		// the device is gone: every later connection is closed as well (the HTTP client
		// transparently repeats an idempotent request whose connection was closed)
		r.Fault = "eof"
		emit(r)
		if hj, ok := w.(http.Hijacker); ok {
			c, _, _ := hj.Hijack()
			c.Close()
		}
		return true
	}
	if sc.FaultReq != i || sc.FaultKind == "jobfail" {
		return false
	}
	r.Fault = sc.FaultKind
	emit(r)
	if code, ok := strings.CutPrefix(sc.FaultKind, "status:"); ok {
		// HTTP error status with a plausible body: every status other than 200 is a failure
		n, _ := strconv.Atoi(code)
		w.WriteHeader(n)
		if sc.Type == "panos" {
			w.Write([]byte("<response status=\"error\" code=\"" + code + "\"><msg>request failed</msg></response>"))
		} else {
			w.Write([]byte(`{"httpStatus":"` + code + `","error_code":` + code + `,"error_message":"request failed"}`))
		}
		return true
	}
	switch sc.FaultKind {
	case "status":
		w.WriteHeader(500)
		w.Write([]byte("device not ready"))
	case "malformed":
		w.Write([]byte("<INVALID {"))
	case "nosuccess":
		if sc.Type == "panos" {
			w.Write([]byte("<response status=\"error\"><msg>Object not present</msg></response>"))
		} else {
			w.WriteHeader(400)
			w.Write([]byte(`{"error_message":"bad request"}`))
		}
	case "eof":
		if hj, ok := w.(http.Hijacker); ok {
			c, _, _ := hj.Hijack()
			c.Close()
		}
	case "stall":
		time.Sleep(5 * time.Second)
	}
	return true
}

func panos(w http.ResponseWriter, q *http.Request) {
	mu.Lock()
	defer mu.Unlock()
	i := nreq
	nreq++
	v := q.URL.Query()
	typ, action := v.Get("type"), v.Get("action")
	r := &rec{I: i, Mode: "api", HasKey: v.Get("key") != ""}
	switch {
	case typ == "keygen":
		r.Class, r.Line, r.Secret = "login", "keygen", true
	case typ == "op" && strings.Contains(v.Get("cmd"), "high-availability"):
		r.Class, r.Line = "read", "op show high-availability"
	case typ == "op":
		r.Class, r.Line = "job", "op "+v.Get("cmd")
	case typ == "config" && (action == "get" || action == "show"):
		r.Class, r.Line = "read", "config "+action+" "+v.Get("xpath")
	case typ == "config":
		r.Class, r.Line = "change", "config "+action+" "+v.Get("xpath")
	case typ == "commit":
		r.Class, r.Line = "save", "commit"
	default:
		r.Class, r.Line = "read", q.URL.RawQuery
	}
	if fault(i, w, r) {
		return
	}
	if r.Class != "login" && v.Get("key") != sc.Key {
		r.Fault = "badkey"
		emit(r)
		w.WriteHeader(403)
		return
	}
	if r.Class == "job" && jobPolls >= sc.JobPend && sc.FaultKind == "jobfail" {
		r.Fault = "jobfail" // the commit job ends with FAIL
	}
	emit(r)
	switch r.Class {
	case "login":
		fmt.Fprintf(w, "<response status = 'success'>\n <result><key>%s</key></result>\n</response>\n", xmlEsc(sc.Key))
	case "read":
		if strings.HasPrefix(r.Line, "op show high") {
			if sc.HA == "off" {
				io.WriteString(w, "<response status = 'success'>\n <result>\n  <enabled>no</enabled>\n </result>\n</response>\n")
			} else {
				fmt.Fprintf(w, "<response status = 'success'>\n <result>\n  <enabled>yes</enabled>\n  <group>\n   <mode>Active-Passive</mode>\n   <local-info>\n    <state>%s</state>\n   </local-info>\n  </group>\n </result>\n</response>\n", sc.HA)
			}
			return
		}
		name := "FW7"
		if sc.Marker {
			name = "FW7-managed-by-Netspoc"
		}
		name2 := name
		if sc.Marker2 != nil {
			name2 = "FW8"
			if *sc.Marker2 {
				name2 = "FW8-managed-by-Netspoc"
			}
		}
		fmt.Fprintf(w, `<response status = 'success'>
 <result>
  <devices>
   <entry name="localhost.localdomain">
    <deviceconfig><system><hostname>%s</hostname></system></deviceconfig>
    <vsys>
     <entry name="vsys1">
     <display-name>%s</display-name>
%s
     </entry>
     <entry name="vsys2">
     <display-name>%s</display-name>
%s
     </entry>
    </vsys>
   </entry>
  </devices>
 </result>
</response>
`, sc.Hostname, name, sc.Config, name2, sc.Config)
	case "change":
		changes++
		uncommit++
		io.WriteString(w, `<response status="success" code="20"></response>`)
	case "save":
		io.WriteString(w, `<response status="success" code="19"><result><job>6</job></result></response>`)
	case "job":
		res := "OK"
		if jobPolls < sc.JobPend {
			// the commit job is still running: the tool has to poll again
			jobPolls++
			res = "PEND"
		} else if sc.FaultKind == "jobfail" {
			res = "FAIL"
		} else {
			saved = true
			uncommit = 0
		}
		fmt.Fprintf(w, "<response status=\"success\"><result><job>\n<result>%s</result>\n</job></result></response>", res)
	}
}

var jobPolls int

func xmlEsc(s string) string {
	s = strings.ReplaceAll(s, "&", "&amp;")
	s = strings.ReplaceAll(s, "<", "&lt;")
	return s
}

func nsx(w http.ResponseWriter, q *http.Request) {
	mu.Lock()
	defer mu.Unlock()
	i := nreq
	nreq++
	p := q.URL.Path
	r := &rec{I: i, Mode: "api", Line: q.Method + " " + p, HasKey: q.Header.Get("x-xsrf-token") != ""}
	switch {
	case p == "/api/session/create":
		r.Class, r.Secret = "login", true
	case q.Method == "GET":
		r.Class = "read"
	default:
		r.Class = "change"
	}
	if fault(i, w, r) {
		return
	}
	if r.Class != "login" && q.Header.Get("x-xsrf-token") != sc.Key {
		r.Fault = "badkey"
		emit(r)
		w.WriteHeader(403)
		return
	}
	emit(r)
	var cfg struct {
		Policies []json.RawMessage `json:"policies"`
		Services []json.RawMessage `json:"services"`
		Groups   []json.RawMessage `json:"groups"`
	}
	if sc.Config != "" {
		json.Unmarshal([]byte(sc.Config), &cfg)
	}
	list := func(l []json.RawMessage) {
		if l == nil {
			l = []json.RawMessage{}
		}
		b, _ := json.Marshal(map[string]any{"results": l})
		w.Write(b)
	}
	const gp = "/policy/api/v1/infra/domains/default/gateway-policies"
	switch {
	case r.Class == "login":
		w.Header().Set("x-xsrf-token", sc.Key)
		http.SetCookie(w, &http.Cookie{Name: "JSESSIONID", Value: "C00K1E" + sc.Key, Path: "/"})
		w.WriteHeader(200)
	case r.Class == "change":
		changes++
		io.Copy(io.Discard, q.Body)
		io.WriteString(w, "{}")
	case p == gp:
		list(cfg.Policies)
	case strings.HasPrefix(p, gp+"/"):
		id := strings.TrimPrefix(p, gp+"/")
		for _, pol := range cfg.Policies {
			var x struct{ Id string }
			json.Unmarshal(pol, &x)
			if x.Id == id {
				w.Write(pol)
				return
			}
		}
		w.WriteHeader(404)
	case p == "/policy/api/v1/infra/services":
		list(cfg.Services)
	case p == "/policy/api/v1/infra/domains/default/groups":
		list(cfg.Groups)
	default:
		w.WriteHeader(404)
	}
}

func main() {
	data, err := os.ReadFile(os.Args[1])
	if err != nil {
		fmt.Fprintln(os.Stderr, err)
		os.Exit(3)
	}
	sc.FaultReq, sc.GateReq = -1, -1
	if err := json.Unmarshal(data, &sc); err != nil {
		fmt.Fprintln(os.Stderr, err)
		os.Exit(3)
	}
	logf, err = os.OpenFile(sc.Log, os.O_CREATE|os.O_WRONLY|os.O_APPEND, 0644)
	if err != nil {
		fmt.Fprintln(os.Stderr, err)
		os.Exit(3)
	}
	emit(map[string]any{"start": true, "type": sc.Type})
	h := http.HandlerFunc(panos)
	if sc.Type == "nsx" {
		h = http.HandlerFunc(nsx)
	}
	ln, err := tls.Listen("tcp", "127.0.0.1:0", &tls.Config{Certificates: []tls.Certificate{selfSigned()}})
	if err != nil {
		fmt.Fprintln(os.Stderr, err)
		os.Exit(3)
	}
	fmt.Printf("https://%s\n", ln.Addr().String())
	os.Stdout.Sync()
	server = &http.Server{Handler: h, ErrorLog: nil}
	go server.Serve(ln)
	// serve until the harness closes our stdin
	io.Copy(io.Discard, bufio.NewReader(os.Stdin))
	mu.Lock()
	emit(map[string]any{"end": true, "changes": changes, "saved": saved, "reload_pending": false,
		"lines": nreq, "uncommitted": uncommit})
	logf.Close()
	os.Exit(0)
}
