// statusdrv replays behaviours of specs/status/Status.tla against the real
// status package and the real missing-approve binary and records a trace.
//
// stdin : one JSON behaviour per line  {"id":n,"init":{"c":"X","dev":"Y"},"evs":[{"ev":"ApproveOK"},...]}
// stdout: ndjson trace (one line per event, first line of each behaviour has ev="Init")
// argv  : <path of missing-approve binary> <scratch dir>
package main

import (
	"bufio"
	"bytes"
	"encoding/json"
	"fmt"
	"os"
	"os/exec"
	"path/filepath"
	"strconv"
	"strings"
	"time"

	"github.com/hknutzen/Netspoc-Approve/go/pkg/program"
	"github.com/hknutzen/Netspoc-Approve/go/pkg/status"
)

type event struct {
	Ev   string `json:"ev"`
	C    string `json:"c,omitempty"`
	P    int    `json:"p,omitempty"`
	Kind string `json:"kind,omitempty"`
}

type behaviour struct {
	ID   int `json:"id"`
	Init struct {
		C   string `json:"c"`
		Dev string `json:"dev"`
	} `json:"init"`
	Evs []event `json:"evs"`
	// Obs[i] tells whether missing-approve is run after event i (0 = Init);
	// absent means always.  Prefixes shared with other behaviours are observed once.
	Obs []bool `json:"obs,omitempty"`
}

// files of one abstract content: path below policies/pN/ -> bytes
var contents = map[string]map[string]string{
	"X":  {"code/router": "version X\n"},
	"Y":  {"code/router": "version Y\n"},
	"E":  {"code/router": ""},
	"XR": {"code/router": "version X\n", "code/router.raw": "raw 1\n"},
	"XS": {"code/router": "version X\n", "code/router.raw": "raw 2\n"},
	"X6": {"code/router": "version X\n", "code/ipv6/router": "v6 1\n"},
	"Z6": {"code/router": "version X\n", "code/ipv6/router": "v6 2\n"},
	"O6": {"code/ipv6/router": "v6 1\n"},
	"XE": {"code/router": "version X\n", "code/router.raw": ""},
	// differ from X / X6 only in a file of the ipv4/ sub-directory resp. in the raw file of ipv6/
	"V4": {"code/router": "version X\n", "code/ipv4/router": "v4 1\n"},
	// IPv6-only device: its raw file lives in code/, two versions of it
	"O6R": {"code/ipv6/router": "v6 1\n", "code/router.raw": "raw 1\n"},
	"O6S": {"code/ipv6/router": "v6 1\n", "code/router.raw": "raw 2\n"},
	"R6": {"code/router": "version X\n", "code/ipv6/router": "v6 1\n", "code/ipv6/router.raw": "raw6 1\n"},
}

var base = time.Date(2024, 1, 1, 0, 0, 0, 0, time.UTC)

type obsStatus struct {
	Bad bool   `json:"bad"`
	Ar  string `json:"ar"`
	Ap  int    `json:"ap"`
	At  int64  `json:"at"`
	Cr  string `json:"cr"`
	Cp  int    `json:"cp"`
	Ct  int64  `json:"ct"`
}

type traceLine struct {
	T       int       `json:"t"`
	Ev      string    `json:"ev"`
	C       string    `json:"c"`
	P       int       `json:"p"`
	Kind    string    `json:"kind"`
	Dev     string    `json:"dev"`
	Changed bool      `json:"changed"`
	Clock   int       `json:"clock"`
	O       bool      `json:"o"`
	Listed  bool      `json:"listed"`
	// the never-approved bystander devices (a dual-stack one, an IPv4-only and an IPv6-only one) are all listed
	// and nothing else is
	Others bool      `json:"others"`
	St     obsStatus `json:"st"`
}

func must(err error) {
	if err != nil {
		fmt.Fprintln(os.Stderr, "statusdrv:", err)
		os.Exit(2)
	}
}

// policy n of the model is directory p<n+polOffset>: the names cross a digit boundary (p9, p10) early, where
// string order and numeric order of the names differ
const polOffset = 7

func polName(n int) string { return "p" + strconv.Itoa(n+polOffset) }

func polNum(s string) int {
	if s == "" {
		return 0
	}
	n, _ := strconv.Atoi(strings.TrimPrefix(s, "p"))
	return n - polOffset
}

func relTime(t int64) int64 {
	if t == 0 {
		return 0
	}
	return t - base.Unix()
}

func main() {
	missing := os.Args[1]
	root := os.Args[2]
	in := bufio.NewScanner(os.Stdin)
	in.Buffer(make([]byte, 1<<20), 1<<26)
	out := bufio.NewWriter(os.Stdout)
	defer out.Flush()
	enc := json.NewEncoder(out)
	n := 0
	for in.Scan() {
		var b behaviour
		must(json.Unmarshal(in.Bytes(), &b))
		n++
		dir := filepath.Join(root, fmt.Sprintf("w%d", n))
		runOne(&b, dir, missing, enc)
		os.RemoveAll(dir)
	}
}

func runOne(b *behaviour, dir, missing string, enc *json.Encoder) {
	must(os.MkdirAll(filepath.Join(dir, "policies"), 0755))
	must(os.WriteFile(filepath.Join(dir, ".netspoc-approve"),
		[]byte("basedir = "+dir+"\n"), 0644))
	os.Setenv("HOME", dir)
	cfg, err := program.LoadConfig()
	must(err)
	clock := 0
	npol := 0
	dev := b.Init.Dev
	polC := map[int]string{}
	setTime := func() {
		os.Setenv("TEST_TIME", base.Add(time.Duration(clock)*time.Second).Format("2006-Jan-02 15:04:05"))
	}
	newPolicy := func(c string) {
		npol++
		polC[npol] = c
		pd := filepath.Join(dir, "policies", polName(npol))
		files, ok := contents[c]
		if !ok {
			must(fmt.Errorf("unknown content %q", c))
		}
		for rel, data := range files {
			f := filepath.Join(pd, rel)
			must(os.MkdirAll(filepath.Dir(f), 0755))
			must(os.WriteFile(f, []byte(data), 0644))
		}
		// bystanders: devices that have code in every policy and were never approved (no status file);
		// their names sort before and behind `ipv6` and `router`
		for _, rel := range []string{"code/aaa", "code/ipv6/aaa", "code/zzz", "code/ipv6/zzz6", "code/aaa.info", "code/ipv6/zzz6.info"} {
			f := filepath.Join(pd, rel)
			must(os.MkdirAll(filepath.Dir(f), 0755))
			must(os.WriteFile(f, []byte("bystander\n"), 0644))
		}
		cur := filepath.Join(dir, "policies", "current")
		os.Remove(cur)
		must(os.Symlink(polName(npol), cur))
	}
	statusFile := filepath.Join(dir, "status", "router")
	step := 0
	observe := func(ev event, changed bool) {
		doObs := b.Obs == nil || (step < len(b.Obs) && b.Obs[step])
		step++
		listed := false
		others := true
		if doObs {
			seen := map[string]int{}
			cmd := exec.Command(missing)
			cmd.Env = append(os.Environ(), "HOME="+dir)
			var so, se bytes.Buffer
			cmd.Stdout, cmd.Stderr = &so, &se
			if err := cmd.Run(); err != nil {
				must(fmt.Errorf("missing-approve: %v: %s", err, se.String()))
			}
			for _, ln := range strings.Split(so.String(), "\n") {
				if ln == "router" {
					listed = true
				} else if ln != "" {
					seen[ln]++
				}
			}
			others = len(seen) == 3 && seen["aaa"] == 1 && seen["zzz"] == 1 && seen["zzz6"] == 1
		}
		var st obsStatus
		data, err := os.ReadFile(statusFile)
		var raw struct {
			Approve, Compare struct {
				Result, Policy string
				Time           int64
			}
		}
		if err != nil {
			st.Bad = true
		} else if json.Unmarshal(data, &raw) != nil {
			st.Bad = true
		} else {
			st = obsStatus{false, raw.Approve.Result, polNum(raw.Approve.Policy), relTime(raw.Approve.Time),
				raw.Compare.Result, polNum(raw.Compare.Policy), relTime(raw.Compare.Time)}
		}
		must(enc.Encode(traceLine{T: b.ID, Ev: ev.Ev, C: ev.C, P: ev.P, Kind: ev.Kind, Dev: dev,
			Changed: changed, Clock: clock, O: doObs, Listed: listed, Others: others, St: st}))
	}
	newPolicy(b.Init.C)
	observe(event{Ev: "Init", C: b.Init.C}, false)
	for _, ev := range b.Evs {
		clock++
		setTime()
		cur := polName(npol)
		changed := false
		switch ev.Ev {
		case "NewPolicy":
			newPolicy(ev.C)
		case "ApproveOK":
			dev = polC[npol]
			status.SetApprove(cfg, "router", cur, false)
		case "ApproveFail":
			status.SetApprove(cfg, "router", cur, true)
		case "Compare":
			changed = dev != polC[npol]
			status.SetCompare(cfg, "router", cur, changed)
		case "CompareUnreach":
			changed = true
			status.SetCompare(cfg, "router", cur, true)
		case "Drift":
			dev = ev.C
		case "Compress":
			pd := filepath.Join(dir, "policies", polName(ev.P))
			var files []string
			filepath.Walk(pd, func(p string, fi os.FileInfo, err error) error {
				if err == nil && !fi.IsDir() && filepath.Dir(p) != pd {
					files = append(files, p)
				}
				return nil
			})
			if len(files) > 0 {
				c := exec.Command("bzip2", append([]string{"-9", "-f"}, files...)...)
				if o, err := c.CombinedOutput(); err != nil {
					must(fmt.Errorf("bzip2: %v %s", err, o))
				}
			}
		case "Remove":
			must(os.RemoveAll(filepath.Join(dir, "policies", polName(ev.P))))
		case "Corrupt":
			os.MkdirAll(filepath.Dir(statusFile), 0755)
			data, _ := os.ReadFile(statusFile)
			switch ev.Kind {
			case "trunc":
				if len(data) < 2 {
					data = []byte("{\"approve\":{\"resu")
				}
				must(os.WriteFile(statusFile, data[:len(data)/2], 0644))
			case "empty":
				must(os.WriteFile(statusFile, nil, 0644))
			case "garbage":
				must(os.WriteFile(statusFile, []byte("\x00\x01 not json {{{"), 0644))
			case "removed":
				os.Remove(statusFile)
			default:
				must(fmt.Errorf("unknown corruption %q", ev.Kind))
			}
		default:
			must(fmt.Errorf("unknown event %q", ev.Ev))
		}
		observe(ev, changed)
	}
}
