# Sourced through BASH_ENV by the UNMODIFIED bin/newpolicy.sh: traces every simple command
# together with a snapshot of the policy database, can kill the script (whole process group)
# right before its k-th command and can hold it there as a scheduler gate.
if [ -n "$VP_TRACE" ] && [ -z "$__VP_ON" ]; then
    __VP_ON=1
    set -T
    __vp() {
        # must never fail: the script runs parts of itself under `set -e`
        local cmd="$1" n=0 cur="" dirs="" d fl=""
        if [ -e "$VP_CTR" ]; then n=$(cat "$VP_CTR") || :; fi
        n=$((n + 1))
        echo $n > "$VP_CTR" || :
        if [ -L "$VP_DB/current" ]; then cur=$(readlink "$VP_DB/current") || :; fi
        for d in "$VP_DB"/p[0-9]* "$VP_DB"/next; do
            if [ -d "$d" ]; then
                if [ -e "$d/code/.compiled-ok" ]; then dirs="$dirs${d##*/}+,"; else dirs="$dirs${d##*/}-,"; fi
            fi
        done
        if [ -e "$VP_DB/failed" ]; then fl=F; fi
        printf '%s\t%s\t%s\t%s\t%s\t%s\n' "$n" "$VP_INST" "$cur" "$dirs" "$fl" "${cmd//$'\n'/ }" >> "$VP_TRACE" || :
        if [ -n "$VP_GATE_AT" ] && [ "$VP_GATE_AT" = "$n" ]; then
            : > "$VP_GATE.reached"
            while [ ! -e "$VP_GATE.release" ]; do sleep 0.01; done
        fi
        if [ -n "$VP_KILL_AT" ] && [ "$VP_KILL_AT" = "$n" ]; then
            echo "$n	$VP_INST	KILLED" >> "$VP_TRACE"
            kill -9 0
        fi
        return 0
    }
    trap '__vp "$BASH_COMMAND"' DEBUG
fi
