module verif/harness

go 1.23.1

require github.com/hknutzen/Netspoc-Approve/go v0.0.0

require (
	golang.org/x/sys v0.30.0 // indirect
	golang.org/x/term v0.29.0 // indirect
)

replace github.com/hknutzen/Netspoc-Approve/go => /repo/go
