#!/bin/sh
# Runs the repository's test suite with the verif build tag OFF and checks that
# every test listed as stable_pass in /root/.vp/BASELINE.json passes.
export GOFLAGS=-mod=mod GOPROXY=off GOSUMDB=off GOTOOLCHAIN=local
OUT=$(mktemp /var/tmp/verif-baseline.XXXXXX)
(cd ${VERIF_REPO:-/repo}/go && go test -json -vet=off -count=1 -timeout 25m ./... ) > "$OUT" 2>/dev/null
python3 - "$OUT" <<'PY'
import json, sys
passed = set()
for ln in open(sys.argv[1]):
    try:
        e = json.loads(ln)
    except ValueError:
        continue
    if e.get("Action") == "pass" and e.get("Test"):
        passed.add(e["Package"] + "::" + e["Test"])
base = json.load(open("/root/.vp/BASELINE.json"))["stable_pass"]
missing = [t for t in base if t not in passed]
print("baseline: %d of %d stable tests pass" % (len(base) - len(missing), len(base)))
for t in missing[:20]:
    print("NOT PASSING:", t)
sys.exit(1 if missing else 0)
PY
RC=$?
rm -f "$OUT"
exit $RC
